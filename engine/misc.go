package main

import (
	"encoding/json"
	"fmt"
	"os"
	"sort"
)

// RunReplay prints a replay file and re-runs the solver on the stored failing queries.
func RunReplay(args []string) int {
	if len(args) < 1 {
		fmt.Println("usage: verif replay <file>")
		return 2
	}
	b, err := os.ReadFile(args[0])
	if err != nil {
		fmt.Println(err)
		return 2
	}
	var rec map[string]any
	if err := json.Unmarshal(b, &rec); err != nil {
		fmt.Println(err)
		return 2
	}
	fmt.Printf("property=%v obligation=%v\nclause: %v\n", rec["property"], rec["obligation"], rec["clause"])
	vcs, _ := rec["failing_vcs"].([]any)
	bad := 0
	for _, v := range vcs {
		m := v.(map[string]any)
		f, _ := m["vc_file"].(string)
		if f == "" {
			continue
		}
		j := &VCJob{File: f}
		solveOne(j, 3, 20, false)
		fmt.Printf("  %s: %s by %s (recorded: %v)\n", f, j.Status, j.By, m["status"])
		if j.Status != "unsat" {
			bad++
		}
	}
	if h, ok := rec["harness"]; ok {
		fmt.Printf("harness: %v\n", h)
	}
	if bad > 0 {
		return 1
	}
	return 0
}

// RunList prints the units and their properties.
func RunList(args []string) int {
	repo, verif := "/repo", "/verif"
	prog, err := LoadProgram(repo)
	if err != nil {
		fmt.Println(err)
		return 2
	}
	cs, err := LoadAllContracts(verif, repo, prog.ModPath)
	if err != nil {
		fmt.Println(err)
		return 2
	}
	var ks []string
	for k, fc := range cs.Funcs {
		if !fc.Trusted {
			ks = append(ks, k)
		}
	}
	sort.Strings(ks)
	for _, k := range ks {
		found := "ok"
		if prog.Func(k) == nil && !(len(k) > 7 && k[len(k)-7:] == ".tables") {
			found = "NOT FOUND"
		}
		fmt.Printf("%-90s %v %s\n", shortName(k), cs.Funcs[k].Props, found)
	}
	for _, l := range cs.Lemmas {
		fmt.Printf("lemma.%-84s %v\n", l.Name, l.Props)
	}
	return 0
}
