package main

import (
	"encoding/json"
	"fmt"
	"go/types"
	"os"
	"reflect"
	"sort"
	"strings"
)

// RunReplay prints a replay file and re-runs the solver on the stored failing queries.
func RunReplay(args []string) int {
	if len(args) < 1 {
		fmt.Println("usage: verif replay <file>")
		return 2
	}
	b, err := os.ReadFile(args[0])
	if err != nil {
		fmt.Println(err)
		return 2
	}
	var rec map[string]any
	if err := json.Unmarshal(b, &rec); err != nil {
		fmt.Println(err)
		return 2
	}
	fmt.Printf("property=%v obligation=%v\nclause: %v\n", rec["property"], rec["obligation"], rec["clause"])
	vcs, _ := rec["failing_vcs"].([]any)
	bad := 0
	for _, v := range vcs {
		m := v.(map[string]any)
		f, _ := m["vc_file"].(string)
		if f == "" {
			continue
		}
		j := &VCJob{File: f}
		solveOne(j, 3, 20, false)
		fmt.Printf("  %s: %s by %s (recorded: %v)\n", f, j.Status, j.By, m["status"])
		if j.Status != "unsat" {
			bad++
		}
	}
	if h, ok := rec["harness"]; ok {
		fmt.Printf("harness: %v\n", h)
	}
	if bad > 0 {
		return 1
	}
	return 0
}

// RunList prints the units and their properties.
func RunList(args []string) int {
	repo, verif := "/repo", "/verif"
	prog, err := LoadProgram(repo)
	if err != nil {
		fmt.Println(err)
		return 2
	}
	cs, err := LoadAllContracts(verif, repo, prog.ModPath)
	if err != nil {
		fmt.Println(err)
		return 2
	}
	var ks []string
	for k, fc := range cs.Funcs {
		if !fc.Trusted {
			ks = append(ks, k)
		}
	}
	sort.Strings(ks)
	for _, k := range ks {
		found := "ok"
		if prog.Func(k) == nil && !(len(k) > 7 && k[len(k)-7:] == ".tables") {
			found = "NOT FOUND"
		}
		fmt.Printf("%-90s %v %s\n", shortName(k), cs.Funcs[k].Props, found)
	}
	for _, l := range cs.Lemmas {
		fmt.Printf("lemma.%-84s %v\n", l.Name, l.Props)
	}
	return 0
}

// shapeLemmas turns the shape specifications into closed goals: the declaration found in the loaded program, brought
// to a normal form, equals the specified one. They run through the same pipeline as every other obligation.
func shapeLemmas(prog *Program, cs *ContractSet) []*Lemma {
	norm := func(opts string) string {
		var parts []string
		for _, p := range strings.Split(opts, ",") {
			if p = strings.TrimSpace(p); p != "" {
				parts = append(parts, p)
			}
		}
		sort.Strings(parts)
		return strings.Join(parts, ",")
	}
	var out []*Lemma
	for _, sp := range cs.Shapes {
		short := sp.Type[strings.LastIndex(sp.Type, ".")+1:]
		var st *types.Struct
		if t := prog.NamedType(sp.Type); t != nil {
			st, _ = t.Underlying().(*types.Struct)
		}
		for _, ln := range sp.Lines {
			actual, want := "<no such struct type>", ln.Want
			name := "shape." + short + "." + ln.Kind
			if st != nil {
				switch ln.Kind {
				case "order":
					var fs []string
					for i := 0; i < st.NumFields(); i++ {
						fs = append(fs, st.Field(i).Name())
					}
					actual = strings.Join(fs, " ")
				default:
					name += "." + ln.Field
					actual = "<no such field>"
					for i := 0; i < st.NumFields(); i++ {
						if st.Field(i).Name() == ln.Field {
							actual = norm(reflect.StructTag(st.Tag(i)).Get(ln.Kind))
						}
					}
					want = norm(want)
				}
			}
			out = append(out, &Lemma{Name: name, Props: sp.Props, File: sp.File, Pkg: sp.Pkg,
				Goal: fmt.Sprintf("(= %s %s)", smtStr(actual), smtStr(want))})
		}
	}
	return out
}

