package main

import (
	"strings"
	"sync"
)

// A small simplifier for the SMT terms the executor builds as text: selectors applied to the Slice constructor are
// projected ((base (mkslice a b c d)) -> a) and x+0 / x-0 / 0+x are dropped. It only rewrites terms into equal terms.

type sx struct {
	atom string
	kids []*sx
}

func parseSx(s string) *sx {
	pos := 0
	var parse func() *sx
	parse = func() *sx {
		for pos < len(s) && (s[pos] == ' ' || s[pos] == '\n' || s[pos] == '\t') {
			pos++
		}
		if pos >= len(s) {
			return nil
		}
		if s[pos] == '(' {
			pos++
			n := &sx{}
			for {
				for pos < len(s) && (s[pos] == ' ' || s[pos] == '\n' || s[pos] == '\t') {
					pos++
				}
				if pos >= len(s) {
					return n
				}
				if s[pos] == ')' {
					pos++
					return n
				}
				k := parse()
				if k == nil {
					return n
				}
				n.kids = append(n.kids, k)
			}
		}
		start := pos
		if s[pos] == '"' {
			pos++
			for pos < len(s) {
				if s[pos] == '"' {
					if pos+1 < len(s) && s[pos+1] == '"' {
						pos += 2
						continue
					}
					pos++
					break
				}
				pos++
			}
			return &sx{atom: s[start:pos]}
		}
		if s[pos] == '|' {
			pos++
			for pos < len(s) && s[pos] != '|' {
				pos++
			}
			pos++
			return &sx{atom: s[start:pos]}
		}
		for pos < len(s) && s[pos] != ' ' && s[pos] != '\n' && s[pos] != '\t' && s[pos] != '(' && s[pos] != ')' {
			pos++
		}
		return &sx{atom: s[start:pos]}
	}
	return parse()
}

func (n *sx) String() string {
	var b strings.Builder
	n.write(&b)
	return b.String()
}

func (n *sx) write(b *strings.Builder) {
	if n.kids == nil && n.atom != "" {
		b.WriteString(n.atom)
		return
	}
	b.WriteByte('(')
	for i, k := range n.kids {
		if i > 0 {
			b.WriteByte(' ')
		}
		k.write(b)
	}
	b.WriteByte(')')
}

func (n *sx) head() string {
	if len(n.kids) > 0 && n.kids[0].kids == nil {
		return n.kids[0].atom
	}
	return ""
}

var sliceSel = map[string]int{"base": 1, "off": 2, "len": 3, "cap": 4}

func simpSx(n *sx) *sx {
	if n == nil || n.kids == nil {
		return n
	}
	for i, k := range n.kids {
		n.kids[i] = simpSx(k)
	}
	h := n.head()
	if ix, ok := sliceSel[h]; ok && len(n.kids) == 2 {
		a := n.kids[1]
		if a.head() == "mkslice" && len(a.kids) == 5 {
			return a.kids[ix]
		}
	}
	if (h == "+" || h == "-") && len(n.kids) == 3 {
		if n.kids[2].kids == nil && n.kids[2].atom == "0" {
			return n.kids[1]
		}
		if h == "+" && n.kids[1].kids == nil && n.kids[1].atom == "0" {
			return n.kids[2]
		}
	}
	return n
}

var simpCache sync.Map

// simpTerm simplifies one term given as text.
func simpTerm(t string) string {
	if !strings.Contains(t, "(mkslice ") && !strings.Contains(t, " 0)") {
		return t
	}
	if v, ok := simpCache.Load(t); ok {
		return v.(string)
	}
	n := parseSx(t)
	if n == nil {
		return t
	}
	out := simpSx(n).String()
	simpCache.Store(t, out)
	return out
}
