package main

import (
	"fmt"
	"go/token"
	"go/types"
	"os"
	"regexp"
	"runtime/debug"
	"sort"
	"strings"

	"golang.org/x/tools/go/ssa"
)

// UnitResult is everything one unit (a function under contract, a package's table lemmas, or a lemma) produced.
type UnitResult struct {
	Name       string // short name: config.Merge, v1.tables, lemma.hash_insensitive
	Full       string // contract key
	Kind       string // func | tables | lemma
	Props      []string
	Header     string
	VCs        []Obligation
	Undecided  []string // binding failures (clause could not be bound to the code)
	Error      string   // unit could not be executed at all (function missing, out of subset, engine failure)
	Paths      int
	Applied    map[string]int
	Unmodelled []string
	Preludes   []string
	File       string
	Bounded    string
	Replay     string
	Pkg        string
	Watches    [][2]string
}

const fixedHeader = `(set-logic ALL)
(declare-sort Any 0)
(declare-const nilAny Any)
(declare-sort Fn 0)
(declare-const nilFn Fn)
(declare-fun typeof (Any) Int)
(declare-fun unboxRef (Any) Int)
(declare-sort Bytes 0)
(declare-const bempty Bytes)
(declare-fun bcat (Bytes Bytes) Bytes)
(declare-sort Deep 0)
(declare-datatypes ((Slice 0)) (((mkslice (base Int) (off Int) (len Int) (cap Int)))))
(declare-datatypes ((View 1)) ((par (T) ((mkview (varr (Array Int T)) (voff Int) (vlen Int))))))
(declare-const nextRef0 Int)
`

type Engine struct {
	Prog     *Program
	CS       *ContractSet
	VerifDir string
}

// unitsFor lists the contract keys relevant for a property ("" = all).
func (en *Engine) unitsFor(prop string) []string {
	var out []string
	for k, fc := range en.CS.Funcs {
		if fc.Trusted || fc.Unverified != "" {
			continue
		}
		if prop == "" || hasProp(fc.Props, prop) || (prop == "C20" && !fc.NoSafety()) {
			out = append(out, k)
		}
	}
	sort.Strings(out)
	return out
}

func (fc *FuncContract) NoSafety() bool { return fc.Lenient && false }

func hasProp(ps []string, p string) bool {
	for _, x := range ps {
		if x == p {
			return true
		}
	}
	return false
}

func (en *Engine) RunUnit(key string) (res *UnitResult) { return en.runUnit(key, nil) }

// runUnit generates the unit's obligations; alias rebinds contract names that no longer name a local to other locals
// of the function (every obligation, including initiation and preservation of the invariants, is generated under that
// binding, so a wrong binding can only make obligations fail).
func (en *Engine) runUnit(key string, alias map[string]string) (res *UnitResult) {
	fc := en.CS.Funcs[key]
	res = &UnitResult{Name: shortName(key), Full: key, Kind: "func", Props: fc.Props, File: fc.File, Bounded: fc.Bounded, Replay: fc.Replay, Pkg: fc.Pkg}
	defer func() {
		if r := recover(); r != nil {
			if be, ok := r.(BindingError); ok {
				res.Error = "binding: " + be.msg
				return
			}
			msg := fmt.Sprint(r)
			st := string(debug.Stack())
			if os.Getenv("VERIF_DEBUG") != "" {
				fmt.Fprintln(os.Stderr, "unit", key, "panic:", r, "\n", st)
			}
			// keep the innermost engine frame for diagnosis
			for _, l := range strings.Split(st, "\n") {
				if strings.Contains(l, "/engine/") && !strings.Contains(l, "unit.go") {
					msg += " @" + strings.TrimSpace(l)
					break
				}
			}
			res.Error = "out of subset / engine: " + msg
		}
	}()
	if strings.HasSuffix(key, ".tables") {
		res.Kind = "tables"
		en.runTables(fc, res)
		return
	}
	fn := en.Prog.Func(key)
	if fn == nil {
		res.Error = "binding: function " + key + " not found in the program"
		return
	}
	e := en.newExec(fn, fc)
	e.alias = alias
	e.Run()
	// an atcall clause whose callee is never called on any path would be vacuous: the callee name is wrong or the
	// code no longer makes the call
	for callee := range fc.AtCall {
		if !e.atCallSeen[callee] {
			e.undecided = append(e.undecided, "atcall "+callee+": no call to this function on any path of "+shortName(key)+" (clause not applied)")
		}
	}
	en.finish(e, fc, res)
	return
}

func (en *Engine) newExec(fn *ssa.Function, fc *FuncContract) *Exec {
	e := &Exec{fn: fn, sorts: NewSorts(), cs: en.CS, inline: map[string]bool{}, lenient: fc.Lenient, prog: en.Prog, applied: map[string]int{}}
	e.contract = fc
	for _, n := range fc.Inline {
		e.inline[n] = true
	}
	e.noFrame = map[string]bool{}
	for _, h := range fc.Modifies {
		e.noFrame[h] = true
	}
	for _, p := range fn.Params {
		e.sorts.SortOf(p.Type())
	}
	e.externs = map[string]func(e *Exec, st *State, c *ssa.Call, a []string) string{}
	e.modelFields = map[string]string{}
	for name, ks := range en.CS.ModelFields {
		kv := strings.Split(ks, "\x00")
		hn := "MF_" + name
		e.sorts.heaps[hn] = fmt.Sprintf("(Array %s %s)", kv[0], kv[1])
		e.modelFields[name] = hn
		if !en.CS.WorldFields[name] {
			e.noFrame[hn] = true
		}
		for _, m := range fc.Modifies {
			if m == hn || m == name {
				e.noFrame[hn] = true
			}
		}
	}
	return e
}

// finish builds the SMT header of a unit from what the execution used.
func (en *Engine) finish(e *Exec, fc *FuncContract, res *UnitResult) {
	res.Paths = e.paths
	res.Undecided = e.undecided
	res.Applied = e.applied
	res.Unmodelled = dedupe(e.unmodelled)
	// preludes: base, the contract's own, and those of every contract applied at a call site
	names := []string{"base.smt2"}
	names = append(names, fc.Uses...)
	names = append(names, e.extraUses...)
	var ks []string
	for k := range e.applied {
		ks = append(ks, k)
	}
	sort.Strings(ks)
	for _, k := range ks {
		if c, ok := en.CS.Funcs[k]; ok {
			names = append(names, c.Uses...)
		}
	}
	pres, err := ResolvePreludes(en.VerifDir, names)
	if err != nil {
		res.Error = "prelude: " + err.Error()
		return
	}
	loaded := map[string]bool{}
	var ptext strings.Builder
	for _, p := range pres {
		loaded[p.Name] = true
		res.Preludes = append(res.Preludes, p.Name)
		for _, tn := range p.UseTypes {
			t := en.Prog.NamedType(tn)
			if t == nil {
				res.Error = "prelude " + p.Name + ": unknown type " + tn
				return
			}
			e.sorts.SortOf(t)
			if pt, ok := t.(*types.Pointer); ok {
				e.sorts.SortOf(pt.Elem())
			}
		}
		for _, h := range p.UseHeaps {
			switch {
			case strings.HasPrefix(h, "HS_"):
				e.sorts.HeapSlice(sortFromHeapName(e.sorts, strings.TrimPrefix(h, "HS_")))
			case strings.HasPrefix(h, "H_"):
				e.sorts.HeapObj(sortFromHeapName(e.sorts, strings.TrimPrefix(h, "H_")))
			}
		}
		ptext.WriteString("; ---- " + p.Name + "\n" + p.Text + "\n")
	}
	e.preludeText = ptext.String()
	so := e.sorts
	var hdr strings.Builder
	hdr.WriteString(fixedHeader)
	for _, d := range so.decls {
		hdr.WriteString(d + "\n")
	}
	mfOK := func(hn string) bool { // model-field heaps need the sorts of their declaring file's preludes
		if !strings.HasPrefix(hn, "MF_") {
			return true
		}
		for _, u := range en.CS.ModelFieldUses[strings.TrimPrefix(hn, "MF_")] {
			if !loaded[u] {
				return false
			}
		}
		return true
	}
	for _, hn := range so.HeapNames() {
		if !strings.HasPrefix(hn, "MF_") {
			hdr.WriteString(fmt.Sprintf("(declare-const %s_0 %s)\n", hn, so.heaps[hn]))
		}
	}
	hdr.WriteString(e.preludeText)
	for _, hn := range so.HeapNames() {
		if strings.HasPrefix(hn, "MF_") && mfOK(hn) {
			hdr.WriteString(fmt.Sprintf("(declare-const %s_0 %s)\n", hn, so.heaps[hn]))
		}
	}
	declared := map[string]bool{}
	for _, d := range e.decls {
		if f := strings.Fields(d); len(f) > 1 && f[0] == "(declare-const" {
			declared[f[1]] = true
		}
	}
	var ags []string
	for g := range e.autoGlobals {
		ags = append(ags, g)
	}
	sort.Strings(ags)
	for _, g := range ags {
		if !declared[g] {
			hdr.WriteString(fmt.Sprintf("(declare-const %s Int)\n", g))
		}
	}
	for _, d := range e.decls {
		if f := strings.Fields(d); len(f) > 1 && (f[0] == "(declare-fun" || f[0] == "(define-fun-rec" || f[0] == "(declare-const" || f[0] == "(define-fun") {
			if strings.Contains(e.preludeText, f[0]+" "+f[1]+" ") || f[1] == "nextRef0" ||
				strings.Contains(e.preludeText, "(declare-fun "+f[1]+" ") || strings.Contains(e.preludeText, "(define-fun-rec "+f[1]+" ") || strings.Contains(e.preludeText, "(define-fun "+f[1]+" ") {
				continue
			}
		}
		hdr.WriteString(d + "\n")
	}
	// package-level struct variables live at fixed, pairwise distinct addresses allocated before the function runs
	var gas []string
	for _, d := range e.decls {
		if f := strings.Fields(d); len(f) > 1 && f[0] == "(declare-const" && strings.HasPrefix(f[1], "GA_") {
			gas = append(gas, f[1])
		}
	}
	if len(gas) > 1 {
		hdr.WriteString("(assert (distinct " + strings.Join(gas, " ") + "))\n")
	}
	for _, g := range gas {
		hdr.WriteString(fmt.Sprintf("(assert (< %s nextRef0))\n", g))
	}
	// dynamic type tags of different Go types are different
	var tags []string
	seenTag := map[string]bool{}
	for _, d := range e.decls {
		if f := strings.Fields(d); len(f) > 1 && f[0] == "(declare-const" && strings.HasPrefix(f[1], "tag_") && !seenTag[f[1]] {
			seenTag[f[1]] = true
			tags = append(tags, f[1])
		}
	}
	if len(tags) > 1 {
		hdr.WriteString("(assert (distinct " + strings.Join(tags, " ") + "))\n")
	}
	// type invariants of the entry heaps: every slice/pointer stored in a pre-existing object is well formed
	sliceWf := func(t string) string {
		return fmt.Sprintf("(and (<= 0 (base %s)) (< (base %s) nextRef0) (= (off %s) 0) (<= 0 (len %s)) (<= (len %s) (cap %s)) (=> (= (base %s) 0) (= (cap %s) 0)))", t, t, t, t, t, t, t, t)
	}
	for _, hn := range so.HeapNames() {
		var cell, binder string
		var sortName string
		switch {
		case strings.HasPrefix(hn, "HS_"):
			sortName = strings.TrimPrefix(hn, "HS_")
			cell, binder = fmt.Sprintf("(select (select %s_0 r) k)", hn), "((r Int) (k Int))"
		case strings.HasPrefix(hn, "H_"):
			sortName = strings.TrimPrefix(hn, "H_")
			cell, binder = fmt.Sprintf("(select %s_0 r)", hn), "((r Int))"
		default:
			continue
		}
		var wfs []string
		if sortName == "Slice" {
			wfs = []string{sliceWf(cell)}
		} else if t, ok := so.typeOf[sortName]; ok {
			wfs = e.wellFormed(cell, t, 0)
		}
		for _, w := range wfs {
			hdr.WriteString(fmt.Sprintf("(assert (forall %s (=> (and (<= 0 r) (< r nextRef0)) %s)))\n", binder, w))
		}
	}
	for _, a := range en.CS.Asserts {
		ok := true
		for _, u := range a.Uses {
			if !loaded[u] {
				ok = false
			}
		}
		if ok && len(a.Uses) > 0 {
			hdr.WriteString("(assert " + a.Text + ")\n")
		}
	}
	res.Header = hdr.String()
	res.VCs = e.obls
	res.Watches = e.watches
}

func sortFromHeapName(so *Sorts, n string) string {
	switch n {
	case "Int", "String", "Bool", "Any", "Slice":
		return n
	case "BV8":
		return "(_ BitVec 8)"
	}
	return n
}

func dedupe(xs []string) []string {
	seen := map[string]bool{}
	var out []string
	for _, x := range xs {
		if !seen[x] {
			seen[x] = true
			out = append(out, x)
		}
	}
	sort.Strings(out)
	return out
}

// runTables executes the package initializers on the path where the init guard is false and checks the
// "ensures" of the pseudo function <pkg>.tables in the final state.
func (en *Engine) runTables(fc *FuncContract, res *UnitResult) {
	pkg := en.Prog.Package(fc.Pkg)
	if pkg == nil {
		res.Error = "binding: package " + fc.Pkg + " not found"
		return
	}
	fn := pkg.Func("init")
	e := en.newExec(fn, fc)
	e.contract = nil
	e.initMode = true
	e.lenient = true
	e.Run()
	var fin *State
	for _, s := range e.finals {
		if len(s.globals) > 1 {
			fin = s
		}
	}
	if fin == nil {
		res.Error = "no initializer path"
		return
	}
	for i := 1; ; i++ { // user-written init functions run after the variable initializers
		uf := pkg.Func(fmt.Sprintf("init#%d", i))
		if uf == nil {
			break
		}
		e.fn = uf
		e.computeLoops()
		e.finals = nil
		e.block(uf.Blocks[0], nil, fin)
		if len(e.finals) == 0 {
			res.Error = "initializer " + uf.String() + " has no final state"
			return
		}
		fin = e.finals[len(e.finals)-1]
	}
	e.obls = nil // safety obligations of initializers are not claimed
	c := e.newCtx(fin)
	c.fn = fn
	e.contract = fc
	for i := range fc.Ensures {
		cl := fc.Ensures[i]
		if t, ok := e.safeCompile(c, cl, "table lemma"); ok {
			goal, consts := skolemize(t, fmt.Sprintf("sk%d_", i+1))
			for _, d := range consts {
				e.declOnce(d)
				if f := strings.Fields(d); len(f) > 1 {
					e.watches = append(e.watches, [2]string{fmt.Sprintf("table%d witness %s", i+1, strings.TrimPrefix(f[1], fmt.Sprintf("sk%d_", i+1))), f[1]})
				}
			}
			e.obligeCl(fin, fmt.Sprintf("table%d", i+1), goal, &fc.Ensures[i])
		}
	}
	// every "given" of a unit of this package is a claim about the state the initialisers leave behind: it is proved
	// here, on the executed initialisers, so that no given is an unchecked assumption
	seen := map[string]bool{}
	var names []string
	for n := range en.CS.Funcs {
		names = append(names, n)
	}
	sort.Strings(names)
	k := 0
	for _, n := range names {
		g := en.CS.Funcs[n]
		if g.Pkg != fc.Pkg || g == fc {
			continue
		}
		for gi := range g.Given {
			cl := g.Given[gi]
			key := fmt.Sprintf("%v", cl.E)
			if seen[key] {
				continue
			}
			seen[key] = true
			k++
			cl.Props = g.Props
			t, ok := e.safeCompile(c, cl, "given of "+shortName(n))
			if !ok {
				continue
			}
			goal, consts := skolemize(t, fmt.Sprintf("skg%d_", k))
			for _, d := range consts {
				e.declOnce(d)
			}
			e.extraUses = append(e.extraUses, g.Uses...)
			clc := cl
			e.obligeCl(fin, fmt.Sprintf("given%d", k), goal, &clc)
		}
	}
	en.finish(e, fc, res)
}

// RunLemma builds the single VC of a lemma.
func (en *Engine) RunLemma(l *Lemma) (res *UnitResult) {
	res = &UnitResult{Name: "lemma." + l.Name, Full: "lemma." + l.Name, Kind: "lemma", Props: l.Props, File: l.File}
	defer func() {
		if r := recover(); r != nil {
			res.Error = fmt.Sprint(r)
		}
	}()
	pkg := en.Prog.Package(l.Pkg)
	var fn *ssa.Function
	if pkg != nil {
		fn = pkg.Func("init")
	}
	if fn == nil {
		for _, p := range en.Prog.Pkgs {
			if p != nil && p.Func("init") != nil {
				fn = p.Func("init")
				break
			}
		}
	}
	fc := &FuncContract{Name: res.Full, Uses: l.Uses, Props: l.Props}
	e := en.newExec(fn, fc)
	for _, tn := range l.UseTypes {
		t := en.Prog.NamedType(tn)
		if t == nil {
			res.Error = "unknown type " + tn
			return
		}
		e.sorts.SortOf(t)
	}
	goal, consts := skolemize(l.Goal, "sk_")
	e.decls = append(e.decls, consts...)
	for _, d := range consts {
		if f := strings.Fields(d); len(f) > 1 {
			e.watches = append(e.watches, [2]string{"witness " + strings.TrimPrefix(f[1], "sk_"), f[1]})
		}
	}
	e.obls = append(e.obls, Obligation{Name: "goal", Kind: "lemma", Goal: goal, Src: l.File + ": " + l.Name})
	en.finish(e, fc, res)
	return
}

// skolemize turns a goal (forall ((x S) ...) body) into declarations of fresh constants and body, so that a
// model of the negated goal names the witness.
func skolemize(goal string, prefix string) (string, []string) {
	g := strings.TrimSpace(goal)
	if !strings.HasPrefix(g, "(forall ((") {
		return goal, nil
	}
	// parse the binder list
	i := len("(forall ")
	depth := 0
	j := i
	for ; j < len(g); j++ {
		if g[j] == '(' {
			depth++
		} else if g[j] == ')' {
			depth--
			if depth == 0 {
				break
			}
		}
	}
	binders := g[i+1 : j] // "(x S) (y T)"
	body := strings.TrimSpace(g[j+1 : len(g)-1])
	if strings.HasPrefix(body, "(! ") { // an instantiation pattern has no meaning once the quantifier is gone
		if op, args := sexprArgs(body); op == "!" && len(args) >= 1 {
			body = args[0]
		}
	}
	var consts []string
	ren := map[string]string{}
	k := 0
	for k < len(binders) {
		if binders[k] != '(' {
			k++
			continue
		}
		d := 0
		m := k
		for ; m < len(binders); m++ {
			if binders[m] == '(' {
				d++
			} else if binders[m] == ')' {
				d--
				if d == 0 {
					break
				}
			}
		}
		b := binders[k+1 : m]
		name, srt, _ := strings.Cut(b, " ")
		skn := prefix + name
		ren[name] = skn
		consts = append(consts, fmt.Sprintf("(declare-const %s %s)", skn, strings.TrimSpace(srt)))
		k = m + 1
	}
	return renameSyms(body, ren), consts
}

// renameSyms replaces whole symbols outside string literals.
func renameSyms(s string, ren map[string]string) string {
	var b strings.Builder
	i := 0
	isSym := func(c byte) bool {
		return c == '_' || c == '.' || c == '!' || c == '$' || (c >= '0' && c <= '9') || (c >= 'a' && c <= 'z') || (c >= 'A' && c <= 'Z')
	}
	for i < len(s) {
		c := s[i]
		switch {
		case c == '"':
			j := i + 1
			for j < len(s) {
				if s[j] == '"' {
					if j+1 < len(s) && s[j+1] == '"' {
						j += 2
						continue
					}
					break
				}
				j++
			}
			b.WriteString(s[i : j+1])
			i = j + 1
		case isSym(c):
			j := i
			for j < len(s) && isSym(s[j]) {
				j++
			}
			w := s[i:j]
			if r, ok := ren[w]; ok {
				b.WriteString(r)
			} else {
				b.WriteString(w)
			}
			i = j
		default:
			b.WriteByte(c)
			i++
		}
	}
	return b.String()
}


var missingNameRx = regexp.MustCompile(`name "([A-Za-z_][A-Za-z_0-9]*)" does not bind`)

// missingNames: the contract names of a unit that no longer bind, or nil if the unit has any other binding failure.
func missingNames(u *UnitResult, fc *FuncContract) []string {
	msgs := append([]string{}, u.Undecided...)
	if u.Error != "" {
		msgs = append(msgs, u.Error)
	}
	seen := map[string]bool{}
	var out []string
	for _, m := range msgs {
		mm := missingNameRx.FindStringSubmatch(m)
		if mm == nil && strings.Contains(m, "idx used outside a range loop") { // a range loop rewritten as an index loop: idx may be its counter
			mm = []string{"", "idx"}
		}
		if mm == nil {
			return nil
		}
		ghost := false
		if fc != nil {
			for _, g := range fc.GhostRets { // a ghost result that does not bind is a consequence of a missing local in its definition
				if g.Name == mm[1] {
					ghost = true
				}
			}
		}
		if !seen[mm[1]] && !ghost {
			seen[mm[1]] = true
			out = append(out, mm[1])
		}
	}
	return out
}

// rebindCandidates: source names of the function's locals that the contract does not mention.
func (en *Engine) rebindCandidates(key string, includeMentioned bool) []string {
	fn := en.Prog.Func(key)
	fc := en.CS.Funcs[key]
	if fn == nil || fc == nil {
		return nil
	}
	var text []string
	add := func(cs []Clause) {
		for _, c := range cs {
			text = append(text, c.Src)
		}
	}
	add(fc.Requires)
	add(fc.Ensures)
	add(fc.Abstracts)
	add(fc.Watch)
	add(fc.Assume)
	add(fc.Given)
	add(fc.Assigns)
	for _, l := range fc.Loops {
		add(l)
	}
	for _, l := range fc.AtCall {
		add(l)
	}
	for _, g := range fc.GhostRets {
		text = append(text, g.Cl.Src)
	}
	all := strings.Join(text, "\n")
	names := map[string]bool{}
	for _, b := range fn.Blocks {
		for _, ins := range b.Instrs {
			switch x := ins.(type) {
			case *ssa.DebugRef:
				if v, ok := x.Object().(*types.Var); ok && !v.IsField() {
					names[v.Name()] = true
				}
			case *ssa.Phi:
				if x.Comment != "" {
					names[x.Comment] = true
				}
			case *ssa.Alloc:
				if x.Comment != "" {
					names[x.Comment] = true
				}
			}
		}
	}
	for _, p := range fn.Params {
		delete(names, p.Name())
	}
	var out []string
	for n := range names {
		if n == "_" || n == "rangeindex" || n == "varargs" || !token.IsIdentifier(n) {
			continue
		}
		if !includeMentioned && regexp.MustCompile(`\b` + regexp.QuoteMeta(n) + `\b`).MatchString(all) {
			continue
		}
		out = append(out, n)
	}
	sort.Strings(out)
	return out
}
