package main

import (
	"fmt"
	"go/types"
	"os"
	"strings"

	"golang.org/x/tools/go/packages"
	"golang.org/x/tools/go/ssa"
	"golang.org/x/tools/go/ssa/ssautil"
)

// Program is /repo loaded into go/ssa, rebuilt from the working tree on every run.
type Program struct {
	Prog    *ssa.Program
	Pkgs    []*ssa.Package
	RepoDir string
	ModPath string
	funcs   map[string]*ssa.Function
}

func LoadProgram(repoDir string) (*Program, error) {
	cfg := &packages.Config{Mode: packages.LoadAllSyntax, Dir: repoDir, BuildFlags: []string{"-tags=verif"},
		Env: append(os.Environ(), "GOFLAGS=-mod=mod", "GOPROXY=off", "GOSUMDB=off", "GOTOOLCHAIN=local")}
	pkgs, err := packages.Load(cfg, "./...")
	if err != nil {
		return nil, err
	}
	var errs []string
	packages.Visit(pkgs, nil, func(p *packages.Package) {
		for _, e := range p.Errors {
			errs = append(errs, e.Error())
		}
	})
	if len(errs) > 0 {
		return nil, fmt.Errorf("load errors: %s", strings.Join(errs, "; "))
	}
	prog, spkgs := ssautil.AllPackages(pkgs, ssa.BareInits|ssa.GlobalDebug)
	prog.Build()
	p := &Program{Prog: prog, Pkgs: spkgs, RepoDir: repoDir, funcs: map[string]*ssa.Function{}}
	for _, sp := range spkgs {
		if sp != nil && p.ModPath == "" && sp.Pkg.Name() == "main" {
			p.ModPath = sp.Pkg.Path()
		}
	}
	if p.ModPath == "" {
		p.ModPath = modPrefix
	}
	for fn := range ssautil.AllFunctions(prog) {
		if fn.Pkg == nil && fn.Parent() == nil && fn.Signature.Recv() == nil {
			continue
		}
		p.funcs[fn.String()] = fn
	}
	return p, nil
}

// Func finds a function by its SSA name, e.g. "pkg/path.F", "(*pkg/path.T).M", "pkg/path.F$1".
func (p *Program) Func(name string) *ssa.Function {
	if f, ok := p.funcs[name]; ok {
		return f
	}
	return nil
}

func (p *Program) Package(path string) *ssa.Package {
	return p.Prog.ImportedPackage(path)
}

// NamedType resolves "pkg/path.Name".
func (p *Program) NamedType(tn string) types.Type {
	ptr := strings.HasPrefix(tn, "*")
	tn = strings.TrimPrefix(tn, "*")
	i := strings.LastIndex(tn, ".")
	if i < 0 {
		return nil
	}
	pk := p.Prog.ImportedPackage(tn[:i])
	if pk == nil || pk.Type(tn[i+1:]) == nil {
		return nil
	}
	var t types.Type = pk.Type(tn[i+1:]).Type()
	if ptr {
		t = types.NewPointer(t)
	}
	return t
}
