package main

import (
	"fmt"
	"go/constant"
	"go/types"
	"strconv"
	"strings"

	"golang.org/x/tools/go/ssa"
)

// CVal is a compiled contract expression: an SMT term with (optionally) the Go type it denotes.
type CVal struct {
	T    string
	Sort string
	GoT  types.Type
	Nil  bool // the literal nil (sort decided by the other operand)
}

// CCtx is the environment an expression is compiled in.
type CCtx struct {
	e       *Exec
	st      *State
	fn      *ssa.Function          // function whose scope names refer to
	header  *ssa.BasicBlock        // loop header for invariants (nil otherwise)
	phi     map[string]string      // header phis by source name ("rangeindex" for range loops)
	vars    map[string]CVal        // explicit bindings: parameters/results of a callee contract, forall variables
	old     bool                   // evaluate heaps at function entry
	snapKey string                 // prefix for entry() snapshots ("<header index>")
	loopHdr func(ord int) int      // loop ordinal -> header block index
	oldHeaps map[string]string     // heaps "before" (pre-call for callee contracts); nil = function entry
	pkg      *types.Package        // package whose globals and constants names may refer to when fn is nil (callee contracts)
	heapOverride map[string]string // aftercall(): heaps right after a call returned
	freshLo, freshHi string        // callee contract at a call site: fresh(x) means freshLo <= x < freshHi
	boundTerm map[string]string    // callee contract at a call site: bound(NAME) of a ghost result is an unknown Bool
}

type BindingError struct{ msg string }

func (b BindingError) Error() string { return b.msg }

func bindFail(f string, a ...any) { panic(BindingError{fmt.Sprintf(f, a...)}) }

func (c *CCtx) heap(name string) string {
	if c.heapOverride != nil {
		if h, ok := c.heapOverride[name]; ok {
			return h
		}
		return name + "_0"
	}
	if c.old {
		if c.oldHeaps != nil {
			if h, ok := c.oldHeaps[name]; ok {
				return h
			}
			return name + "_0" // never touched before the call: still the entry heap
		}
		return name + "_0"
	}
	return c.e.heapSym(c.st, name)
}

// heapsReachable lists the heap names a value of type t can reach through slices and pointers (not interfaces).
func (c *CCtx) heapsReachable(t types.Type, seen map[string]bool, out *[]string) {
	key := t.String()
	if seen[key] {
		return
	}
	seen[key] = true
	add := func(h string) {
		for _, x := range *out {
			if x == h {
				return
			}
		}
		*out = append(*out, h)
	}
	switch u := t.Underlying().(type) {
	case *types.Slice:
		add(c.e.sorts.HeapSlice(c.e.sorts.SortOf(u.Elem())))
		c.heapsReachable(u.Elem(), seen, out)
	case *types.Pointer:
		if st, ok := u.Elem().Underlying().(*types.Struct); ok {
			if n, isN := u.Elem().(*types.Named); isN && c.e.sorts.opaque(n, st) {
				return
			}
		}
		add(c.e.sorts.HeapObj(c.e.sorts.SortOf(u.Elem())))
		c.heapsReachable(u.Elem(), seen, out)
	case *types.Struct:
		if n, isN := t.(*types.Named); isN && c.e.sorts.opaque(n, u) {
			return
		}
		for i := 0; i < u.NumFields(); i++ {
			c.heapsReachable(u.Field(i).Type(), seen, out)
		}
	case *types.Array:
		c.heapsReachable(u.Elem(), seen, out)
	}
}

// deepTerm: the deep value of v (the value together with everything it reaches), as a term of sort Deep.
// Basic values are themselves, a []byte is its bytes, a struct is the tuple of the deep values of its fields; everything
// else (other slices, pointers, interfaces, maps) is an uninterpreted function of the value and of the heaps it can reach.
func (c *CCtx) deepTerm(v CVal) string {
	return c.deepOfType(v.T, v.GoT, 0)
}

func (c *CCtx) deepOfType(term string, t types.Type, depth int) string {
	switch u := t.Underlying().(type) {
	case *types.Basic:
		srt := c.e.sorts.SortOf(t)
		fn := "deepv_" + sanitize(srt)
		c.e.declOnce(fmt.Sprintf("(declare-fun %s (%s) Deep)", fn, srt))
		return fmt.Sprintf("(%s %s)", fn, term)
	case *types.Slice:
		if t.String() == "encoding/asn1.ObjectIdentifier" {
			c.e.declOnce("(declare-fun deepOid (OidV) Deep)")
			return fmt.Sprintf("(deepOid (oidv (select %s (base %s)) (off %s) (len %s)))", c.heap(c.e.sorts.HeapSlice("Int")), term, term, term)
		}
		if c.e.sorts.SortOf(u.Elem()) == "(_ BitVec 8)" {
			c.e.declOnce("(declare-fun deepBytes (Bytes) Deep)")
			return fmt.Sprintf("(deepBytes (bytesv (select %s (base %s)) (off %s) (len %s)))", c.heap(c.e.sorts.HeapSlice("(_ BitVec 8)")), term, term, term)
		}
	case *types.Struct:
		if n, isN := t.(*types.Named); !(isN && c.e.sorts.opaque(n, u)) && depth < 6 && u.NumFields() > 0 {
			srt := c.e.sorts.SortOf(t)
			var ds, sorts []string
			for i := 0; i < u.NumFields(); i++ {
				ds = append(ds, c.deepOfType(c.e.project(term, t, []int{i}), u.Field(i).Type(), depth+1))
				sorts = append(sorts, "Deep")
			}
			fn := "deepS_" + sanitize(srt)
			c.e.declOnce(fmt.Sprintf("(declare-fun %s (%s) Deep)", fn, strings.Join(sorts, " ")))
			return fmt.Sprintf("(%s %s)", fn, strings.Join(ds, " "))
		}
	}
	var hs []string
	c.heapsReachable(t, map[string]bool{}, &hs)
	srt := c.e.sorts.SortOf(t)
	fn := "deep_" + sanitize(srt)
	var sorts, args []string
	for _, h := range hs {
		sorts = append(sorts, c.e.sorts.heaps[h])
		args = append(args, c.heap(h))
	}
	c.e.declOnce(fmt.Sprintf("(declare-fun %s (%s %s) Deep)", fn, srt, strings.Join(sorts, " ")))
	return fmt.Sprintf("(%s %s %s)", fn, term, strings.Join(args, " "))
}

func (c *CCtx) val(t string, gt types.Type) CVal {
	return CVal{T: t, Sort: c.e.sorts.SortOf(gt), GoT: gt}
}

func (c *CCtx) Compile(x Expr) CVal {
	switch n := x.(type) {
	case IntLit:
		if strings.HasPrefix(n.V, "0x") {
			v, _ := strconv.ParseInt(n.V[2:], 16, 64)
			return CVal{T: fmt.Sprint(v), Sort: "Int"}
		}
		return CVal{T: n.V, Sort: "Int"}
	case StrLit:
		v := n.V
		if u, err := strconv.Unquote("\"" + v + "\""); err == nil {
			v = u
		}
		return CVal{T: smtStr(v), Sort: "String"}
	case BoolLit:
		return CVal{T: fmt.Sprint(n.V), Sort: "Bool"}
	case NilLit:
		return CVal{Nil: true}
	case Ident:
		return c.ident(n.Name)
	case Unary:
		v := c.Compile(n.X)
		if n.Op == "!" {
			return CVal{T: "(not " + v.T + ")", Sort: "Bool"}
		}
		return CVal{T: "(- " + v.T + ")", Sort: "Int"}
	case Binary:
		return c.binary(n)
	case Sel:
		return c.sel(c.Compile(n.X), n.Name)
	case Index:
		return c.index(c.Compile(n.X), c.Compile(n.I))
	case Call:
		return c.call(n)
	case Forall:
		if n.Sort != "" {
			old, had := c.vars[n.Var]
			c.vars[n.Var] = CVal{T: n.Var, Sort: n.Sort}
			body := c.Compile(n.Body)
			if had {
				c.vars[n.Var] = old
			} else {
				delete(c.vars, n.Var)
			}
			q := "forall"
			if n.Exists {
				q = "exists"
			}
			return CVal{T: fmt.Sprintf("(%s ((%s %s)) %s)", q, n.Var, n.Sort, body.T), Sort: "Bool"}
		}
		lo, hi := c.Compile(n.Lo), c.Compile(n.Hi)
		old, had := c.vars[n.Var]
		if n.Expand {
			l, err1 := strconv.Atoi(lo.T)
			h, err2 := strconv.Atoi(hi.T)
			if err1 != nil || err2 != nil || h-l > 64 {
				panic("forall ... expand needs literal bounds at most 64 apart")
			}
			parts := []string{}
			for k := l; k < h; k++ {
				c.vars[n.Var] = CVal{T: strconv.Itoa(k), Sort: "Int"}
				parts = append(parts, c.Compile(n.Body).T)
			}
			if had {
				c.vars[n.Var] = old
			} else {
				delete(c.vars, n.Var)
			}
			op := "and"
			if n.Exists {
				op = "or"
			}
			if len(parts) == 0 {
				return CVal{T: map[bool]string{false: "true", true: "false"}[n.Exists], Sort: "Bool"}
			}
			return CVal{T: "(" + op + " " + strings.Join(parts, " ") + ")", Sort: "Bool"}
		}
		c.vars[n.Var] = CVal{T: n.Var, Sort: "Int"}
		body := c.Compile(n.Body)
		trig := ""
		if n.Trig != nil {
			trig = c.Compile(n.Trig).T
		}
		if had {
			c.vars[n.Var] = old
		} else {
			delete(c.vars, n.Var)
		}
		if trig != "" && !n.Exists {
			return CVal{T: fmt.Sprintf("(forall ((%s Int)) (! (=> (and (<= %s %s) (< %s %s)) %s) :pattern (%s)))", n.Var, lo.T, n.Var, n.Var, hi.T, body.T, trig), Sort: "Bool"}
		}
		if n.Exists {
			return CVal{T: fmt.Sprintf("(exists ((%s Int)) (and (<= %s %s) (< %s %s) %s))", n.Var, lo.T, n.Var, n.Var, hi.T, body.T), Sort: "Bool"}
		}
		// forall k in [a,b) :: forall j in [c,d) :: body  becomes one quantifier over (k, j): the solvers instantiate nested
		// quantifiers poorly
		if in, ok := n.Body.(Forall); ok && !in.Exists && in.Sort == "" && !in.Expand && in.Trig == nil && in.Var != n.Var {
			pre := fmt.Sprintf("(forall ((%s Int)) (=> (and ", in.Var)
			if strings.HasPrefix(body.T, pre) {
				rest := body.T[len(pre):] // "(<= lo j) (< j hi)) BODY))"
				return CVal{T: fmt.Sprintf("(forall ((%s Int) (%s Int)) (=> (and (<= %s %s) (< %s %s) %s", n.Var, in.Var, lo.T, n.Var, n.Var, hi.T, rest), Sort: "Bool"}
			}
		}
		return CVal{T: fmt.Sprintf("(forall ((%s Int)) (=> (and (<= %s %s) (< %s %s)) %s))", n.Var, lo.T, n.Var, n.Var, hi.T, body.T), Sort: "Bool"}
	case Ite:
		cd, a, b := c.Compile(n.C), c.Compile(n.A), c.Compile(n.B)
		a, b = c.unifyNil(a, b)
		return CVal{T: fmt.Sprintf("(ite %s %s %s)", cd.T, a.T, b.T), Sort: a.Sort, GoT: a.GoT}
	}
	panic(fmt.Sprintf("compile: %T", x))
}

func (c *CCtx) nilOf(like CVal) CVal {
	switch like.Sort {
	case "Int":
		return CVal{T: "0", Sort: "Int", GoT: like.GoT}
	case "Any":
		return CVal{T: "nilAny", Sort: "Any", GoT: like.GoT}
	}
	bindFail("nil compared with a value of sort %s", like.Sort)
	return CVal{}
}

func (c *CCtx) unifyNil(a, b CVal) (CVal, CVal) {
	if a.Nil && !b.Nil && b.Sort != "Slice" {
		a = c.nilOf(b)
	}
	if b.Nil && !a.Nil && a.Sort != "Slice" {
		b = c.nilOf(a)
	}
	return a, b
}

func (c *CCtx) binary(n Binary) CVal {
	a := c.Compile(n.X)
	// static short circuit, so that the right operand may mention things that exist only when the left holds
	if (n.Op == "&&" && a.T == "false") || (n.Op == "==>" && a.T == "false") {
		if n.Op == "&&" {
			return CVal{T: "false", Sort: "Bool"}
		}
		return CVal{T: "true", Sort: "Bool"}
	}
	if n.Op == "||" && a.T == "true" {
		return CVal{T: "true", Sort: "Bool"}
	}
	b := c.Compile(n.Y)
	if (n.Op == "|" || n.Op == "&") && a.Sort == "Int" && b.Sort == "Int" {
		a, b = toBV(a), toBV(b)
	}
	boolean := func(f string, args ...any) CVal { return CVal{T: fmt.Sprintf(f, args...), Sort: "Bool"} }
	switch n.Op {
	case "==>":
		return boolean("(=> %s %s)", a.T, b.T)
	case "<==>":
		return boolean("(= %s %s)", a.T, b.T)
	case "&&":
		if b.T == "false" {
			return boolean("false")
		}
		if a.T == "true" {
			return b
		}
		if b.T == "true" {
			return a
		}
		return boolean("(and %s %s)", a.T, b.T)
	case "||":
		if b.T == "true" {
			return boolean("true")
		}
		if a.T == "false" {
			return b
		}
		if b.T == "false" {
			return a
		}
		return boolean("(or %s %s)", a.T, b.T)
	case "==", "!=":
		var t string
		switch {
		case a.Sort == "Slice" && b.Nil:
			t = fmt.Sprintf("(= (base %s) 0)", a.T)
		case b.Sort == "Slice" && a.Nil:
			t = fmt.Sprintf("(= (base %s) 0)", b.T)
		default:
			a, b = c.unifyNil(a, b)
			if a.Sort == "(_ BitVec 8)" && b.Sort == "Int" {
				b = toBV(b)
			}
			if b.Sort == "(_ BitVec 8)" && a.Sort == "Int" {
				a = toBV(a)
			}
			t = fmt.Sprintf("(= %s %s)", a.T, b.T)
		}
		if n.Op == "!=" {
			t = "(not " + t + ")"
		}
		return CVal{T: t, Sort: "Bool"}
	}
	if a.Sort == "(_ BitVec 8)" || b.Sort == "(_ BitVec 8)" {
		if a.Sort == "Int" {
			a = toBV(a)
		}
		if b.Sort == "Int" {
			b = toBV(b)
		}
		op := map[string]string{"&": "bvand", "|": "bvor", "<": "bvult", ">": "bvugt", "<=": "bvule", ">=": "bvuge"}[n.Op]
		if op == "" {
			bindFail("operator %s on bytes", n.Op)
		}
		srt := "(_ BitVec 8)"
		if strings.HasPrefix(op, "bvu") {
			srt = "Bool"
		}
		return CVal{T: fmt.Sprintf("(%s %s %s)", op, a.T, b.T), Sort: srt}
	}
	switch n.Op {
	case "<", "<=", ">", ">=":
		return boolean("(%s %s %s)", n.Op, a.T, b.T)
	case "+", "-", "*":
		return CVal{T: fmt.Sprintf("(%s %s %s)", n.Op, a.T, b.T), Sort: "Int"}
	case "/":
		return CVal{T: fmt.Sprintf("(div %s %s)", a.T, b.T), Sort: "Int"}
	case "%":
		return CVal{T: fmt.Sprintf("(mod %s %s)", a.T, b.T), Sort: "Int"}
	}
	bindFail("operator %s", n.Op)
	return CVal{}
}

func toBV(v CVal) CVal {
	if i, err := strconv.Atoi(v.T); err == nil {
		return CVal{T: fmt.Sprintf("(_ bv%d 8)", i), Sort: "(_ BitVec 8)"}
	}
	return CVal{T: fmt.Sprintf("((_ int2bv 8) %s)", v.T), Sort: "(_ BitVec 8)"}
}

func (c *CCtx) ident(name string) CVal {
	if v, ok := c.vars[name]; ok {
		return v
	}
	if c.e != nil && name != "idx" {
		if a, ok := c.e.alias[name]; ok {
			name = a
		}
	}
	if name == "idx" {
		if p, ok := c.phi["rangeindex"]; ok {
			return CVal{T: fmt.Sprintf("(+ %s 1)", p), Sort: "Int"}
		}
		a, ok := "", false
		if c.e != nil {
			a, ok = c.e.alias["idx"] // a range loop rewritten as an index loop: idx is bound to its counter, in that loop only
		}
		if !ok {
			bindFail("idx used outside a range loop")
		}
		name = a
	}
	isParam := false
	if c.fn != nil {
		for _, p := range c.fn.Params {
			if p.Name() == name {
				isParam = true
			}
		}
	}
	if c.header != nil && !(c.old && isParam) { // old(p) of a reassigned parameter p is its value at entry, also inside a loop
		for _, ins := range c.header.Instrs {
			phi, ok := ins.(*ssa.Phi)
			if !ok {
				break
			}
			if phi.Comment == name {
				return c.val(c.phi[name], phi.Type())
			}
		}
	}
	if c.fn != nil {
		for _, p := range c.fn.Params {
			if p.Name() == name {
				return c.val(c.e.val(c.st, p), p.Type())
			}
		}
		for _, p := range c.fn.FreeVars {
			if p.Name() == name {
				return c.val(c.e.val(c.st, p), p.Type())
			}
		}
		if b, ok := c.st.dbg[name]; ok && !c.old {
			if b.IsAddr {
				pt := b.X.Type().Underlying().(*types.Pointer)
				return c.val(c.e.load(c.st, c.e.ptr(c.st, b.X)), pt.Elem())
			}
			return c.val(c.e.val(c.st, b.X), b.X.Type())
		}
	}
	scopePkg := c.pkg
	if c.fn != nil && c.fn.Pkg != nil {
		scopePkg = c.fn.Pkg.Pkg
	}
	if scopePkg != nil {
		if obj := scopePkg.Scope().Lookup(name); obj != nil {
			switch o := obj.(type) {
			case *types.Const:
				if o.Val().Kind() == constant.Int {
					v, _ := constant.Int64Val(o.Val())
					if c.e.sorts.SortOf(o.Type()) == "(_ BitVec 8)" {
						return CVal{T: fmt.Sprintf("(_ bv%d 8)", v), Sort: "(_ BitVec 8)", GoT: o.Type()}
					}
					return CVal{T: fmt.Sprint(v), Sort: "Int", GoT: o.Type()}
				}
				if o.Val().Kind() == constant.String {
					return CVal{T: smtStr(constant.StringVal(o.Val())), Sort: "String", GoT: o.Type()}
				}
			case *types.Var:
				if isStruct(o.Type()) { // struct-typed package variables live in the object heap at a fixed address
					ga := "GA_" + sanitize(o.Pkg().Path()+"."+o.Name())
					c.e.declOnce(fmt.Sprintf("(declare-const %s Int)", ga))
					c.e.declOnce(fmt.Sprintf("(assert (> %s 0))", ga))
					srt := c.e.sorts.SortOf(o.Type())
					return c.val(fmt.Sprintf("(select %s %s)", c.heap(c.e.sorts.HeapObj(srt)), ga), o.Type())
				}
				g := "G_" + sanitize(o.Pkg().Path()+"."+o.Name())
				if v, ok := c.st.globals[g]; ok {
					return c.val(v, o.Type())
				}
				c.e.declOnce(fmt.Sprintf("(declare-const %s %s)", g, c.e.sorts.SortOf(o.Type())))
				return c.val(g, o.Type())
			}
		}
	}
	bindFail("name %q does not bind", name)
	return CVal{}
}

func (c *CCtx) sel(x CVal, name string) CVal {
	if x.GoT == nil {
		bindFail("selector .%s on an untyped term", name)
	}
	t := x.GoT
	term := x.T
	if pt, ok := t.Underlying().(*types.Pointer); ok {
		srt := c.e.sorts.SortOf(pt.Elem())
		term = fmt.Sprintf("(select %s %s)", c.heap(c.e.sorts.HeapObj(srt)), term)
		t = pt.Elem()
	}
	obj, path, _ := types.LookupFieldOrMethod(t, true, nil, name)
	if obj == nil { // unexported fields need the package
		if n, ok := t.(*types.Named); ok {
			obj, path, _ = types.LookupFieldOrMethod(t, true, n.Obj().Pkg(), name)
		}
	}
	fv, ok := obj.(*types.Var)
	if !ok {
		bindFail("no field %s in %s", name, t)
	}
	// walk the path (embedded pointers are dereferenced through the heap)
	cur := t
	for _, fi := range path {
		if pt, ok := cur.Underlying().(*types.Pointer); ok {
			srt := c.e.sorts.SortOf(pt.Elem())
			term = fmt.Sprintf("(select %s %s)", c.heap(c.e.sorts.HeapObj(srt)), term)
			cur = pt.Elem()
		}
		st := cur.Underlying().(*types.Struct)
		srt := c.e.sorts.SortOf(cur)
		if args, ok := ctorArgs(term, "mk_"+srt); ok && len(args) == st.NumFields() {
			term = args[fi] // selector applied to a constructor term
		} else {
			term = fmt.Sprintf("(%s %s)", c.e.sorts.Sel(srt, st, fi), term)
		}
		cur = st.Field(fi).Type()
	}
	return c.val(term, fv.Type())
}

func (c *CCtx) index(x, i CVal) CVal {
	if strings.HasPrefix(x.Sort, "(View ") {
		el := strings.TrimSuffix(strings.TrimPrefix(x.Sort, "(View "), ")")
		t := fmt.Sprintf("(select (varr %s) (+ (voff %s) %s))", x.T, x.T, i.T)
		if x.GoT != nil { // a view made from a Go slice keeps its element type
			if sl, ok := x.GoT.Underlying().(*types.Slice); ok {
				return c.val(t, sl.Elem())
			}
		}
		return CVal{T: t, Sort: el}
	}
	if x.GoT == nil {
		return CVal{T: fmt.Sprintf("(select %s %s)", x.T, i.T), Sort: "?"} // SMT array from a model field or spec function
	}
	switch u := x.GoT.Underlying().(type) {
	case *types.Slice:
		es := c.e.sorts.SortOf(u.Elem())
		return c.val(fmt.Sprintf("(select (select %s (base %s)) (+ (off %s) %s))", c.heap(c.e.sorts.HeapSlice(es)), x.T, x.T, i.T), u.Elem())
	case *types.Array:
		return c.val(fmt.Sprintf("(select %s %s)", x.T, i.T), u.Elem())
	case *types.Map:
		hn := c.e.sorts.HeapMap(c.e.sorts.SortOf(u.Key()), c.e.sorts.SortOf(u.Elem()))
		return c.val(fmt.Sprintf("(select (select %s %s) %s)", c.heap(hn), x.T, i.T), u.Elem())
	}
	bindFail("cannot index %s", x.GoT)
	return CVal{}
}

func (c *CCtx) call(n Call) CVal {
	arg := func(i int) CVal { return c.Compile(n.Args[i]) }
	switch n.Fun {
	case "len":
		a := arg(0)
		switch {
		case a.Sort == "Slice":
			return CVal{T: "(len " + a.T + ")", Sort: "Int"}
		case a.Sort == "String":
			return CVal{T: "(str.len " + a.T + ")", Sort: "Int"}
		case strings.HasPrefix(a.Sort, "(View "):
			return CVal{T: "(vlen " + a.T + ")", Sort: "Int"}
		}
		bindFail("len of %s", a.Sort)
	case "addr": // address of an address-taken local variable
		id, ok := n.Args[0].(Ident)
		if !ok {
			bindFail("addr of a non-variable")
		}
		b, ok := c.st.dbg[id.Name]
		if !ok || !b.IsAddr {
			bindFail("addr(%s): not an address-taken variable in scope", id.Name)
		}
		return CVal{T: c.e.val(c.st, b.X), Sort: "Int", GoT: b.X.Type()}
	case "row": // row("HS__BitVec8", r): the backing array stored at reference r in the named slice heap
		hn := n.Args[0].(StrLit).V
		if _, ok := c.e.sorts.heaps[hn]; !ok {
			bindFail("row: unknown heap %s", hn)
		}
		return CVal{T: fmt.Sprintf("(select %s %s)", c.heap(hn), arg(1).T), Sort: "?"}
	case "maplen": // number of keys of a map
		m := arg(0)
		return CVal{T: fmt.Sprintf("(select %s %s)", c.heap(c.e.sorts.HeapMapLen()), m.T), Sort: "Int"}
	case "keys": // key set of a map as an SMT array
		m := arg(0)
		mt := m.GoT.Underlying().(*types.Map)
		ks := c.e.sorts.SortOf(mt.Key())
		return CVal{T: fmt.Sprintf("(select %s %s)", c.heap(c.e.sorts.HeapMapDom(ks)), m.T), Sort: "(Array " + ks + " Bool)"}
	case "arr": // backing array of a slice that starts at offset 0
		a := arg(0)
		sl, ok := a.GoT.Underlying().(*types.Slice)
		if !ok {
			bindFail("arr of non-slice")
		}
		es := c.e.sorts.SortOf(sl.Elem())
		return CVal{T: fmt.Sprintf("(select %s (base %s))", c.heap(c.e.sorts.HeapSlice(es)), a.T), Sort: "(Array Int " + es + ")"}
	case "cap":
		return CVal{T: "(cap " + arg(0).T + ")", Sort: "Int"}
	case "seq":
		a := arg(0)
		sl, ok := a.GoT.Underlying().(*types.Slice)
		if !ok {
			bindFail("seq of non-slice")
		}
		es := c.e.sorts.SortOf(sl.Elem())
		return CVal{T: fmt.Sprintf("((as mkview (View %s)) (select %s (base %s)) (off %s) (len %s))", es, c.heap(c.e.sorts.HeapSlice(es)), a.T, a.T, a.T), Sort: "(View " + es + ")", GoT: a.GoT}
	case "bytes", "oidv":
		a := arg(0)
		fn := map[string]string{"bytes": "bytesv", "oidv": "oidv"}[n.Fun]
		srt := map[string]string{"bytes": "Bytes", "oidv": "OidV"}[n.Fun]
		es := map[string]string{"bytes": "(_ BitVec 8)", "oidv": "Int"}[n.Fun]
		return CVal{T: fmt.Sprintf("(%s (select %s (base %s)) (off %s) (len %s))", fn, c.heap(c.e.sorts.HeapSlice(es)), a.T, a.T, a.T), Sort: srt}
	case "bsub": // bsub(x, lo, hi): the bytes x[lo:hi] of a byte slice
		a, lo, hi := arg(0), arg(1), arg(2)
		return CVal{T: fmt.Sprintf("(bytesv (select %s (base %s)) (+ (off %s) %s) (- %s %s))", c.heap(c.e.sorts.HeapSlice("(_ BitVec 8)")), a.T, a.T, lo.T, hi.T, lo.T), Sort: "Bytes"}
	case "old":
		sub := *c
		sub.old = true
		return sub.Compile(n.Args[0])
	case "entry":
		key := c.snapKey
		ex := n.Args[0]
		if len(n.Args) == 2 {
			ord, _ := strconv.Atoi(n.Args[0].(IntLit).V)
			key = fmt.Sprint(c.loopHdr(ord))
			ex = n.Args[1]
		}
		k := key + ":" + fmt.Sprintf("%v", ex)
		if t, ok := c.st.snaps[k]; ok {
			parts := strings.SplitN(t, "\x01", 2)
			return CVal{T: parts[1], Sort: parts[0]}
		}
		bindFail("entry(%v): loop not entered on this path", ex)
	case "allocated": // allocated(x): the slice's backing array / the pointer's object was allocated before this point
		a := arg(0)
		t := a.T
		if a.Sort == "Slice" {
			t = fmt.Sprintf("(base %s)", a.T)
		}
		return CVal{T: fmt.Sprintf("(and (<= 0 %s) (< %s %s))", t, t, c.st.nextRef), Sort: "Bool"}
	case "fresh":
		a := arg(0)
		t := a.T
		if a.Sort == "Slice" {
			t = fmt.Sprintf("(base %s)", a.T)
		}
		if c.freshLo != "" {
			return CVal{T: fmt.Sprintf("(and (>= %s %s) (< %s %s))", t, c.freshLo, t, c.freshHi), Sort: "Bool"}
		}
		return CVal{T: fmt.Sprintf("(and (>= %s nextRef0) (< %s %s))", t, t, c.st.nextRef), Sort: "Bool"}
	case "typed": // typed(term, "*pkg/path.Name"): give an untyped term a Go type
		tn := n.Args[1].(StrLit).V
		ptr := strings.HasPrefix(tn, "*")
		tn = expandType(strings.TrimPrefix(tn, "*"))
		if bt := basicTypeOf(tn); bt != nil {
			return c.val(arg(0).T, bt)
		}
		i := strings.LastIndex(tn, ".")
		if i < 0 {
			bindFail("unknown type %s", tn)
		}
		pk := c.e.fn.Prog.ImportedPackage(tn[:i])
		if pk == nil || pk.Type(tn[i+1:]) == nil {
			bindFail("unknown type %s", tn)
		}
		var t types.Type = pk.Type(tn[i+1:]).Type()
		if ptr {
			t = types.NewPointer(t)
		}
		return c.val(arg(0).T, t)
	case "callres": // callres("callee", k, i): i-th result of the k-th call to callee on this path
		key := fmt.Sprintf("res:%s#%s.%s", c.calleeKey(n.Args[0].(StrLit).V), n.Args[1].(IntLit).V, n.Args[2].(IntLit).V)
		t, ok := c.st.snaps[key]
		if !ok {
			bindFail("callres: %s was not called on this path (guard it with called())", key)
		}
		parts := strings.SplitN(t, "\x01", 2)
		return CVal{T: parts[1], Sort: parts[0]}
	case "aftercall": // aftercall("callee", k, expr): expr evaluated in the heaps right after the k-th call to callee returned
		key := fmt.Sprintf("%s#%s", c.calleeKey(n.Args[0].(StrLit).V), n.Args[1].(IntLit).V)
		hs, ok := c.st.callHeaps[key]
		if !ok {
			bindFail("aftercall: %s was not called on this path", key)
		}
		sub := *c
		sub.heapOverride = hs
		sub.old = false
		return sub.Compile(n.Args[2])
	case "callghost": // callghost("callee", k, "NAME"): ghost result NAME of the k-th call to callee on this path
		key := fmt.Sprintf("ghost:%s#%s.%s", c.calleeKey(n.Args[0].(StrLit).V), n.Args[1].(IntLit).V, n.Args[2].(StrLit).V)
		t, ok := c.st.snaps[key]
		if !ok {
			bindFail("callghost: %s does not exist on this path", key)
		}
		parts := strings.SplitN(t, "\x01", 2)
		return CVal{T: parts[1], Sort: parts[0]}
	case "callarg": // callarg("callee", k, i): the i-th argument of the k-th call to callee on this path (interface arguments keep their static box)
		key := fmt.Sprintf("arg:%s#%s.%s", c.calleeKey(n.Args[0].(StrLit).V), n.Args[1].(IntLit).V, n.Args[2].(IntLit).V)
		t, ok := c.st.snaps[key]
		if !ok {
			bindFail("callarg: %s does not exist on this path", key)
		}
		return CVal{T: t, Sort: "?"}
	case "called": // called("callee", k): the k-th call to callee happened on this path
		key := fmt.Sprintf("res:%s#%s.0", c.calleeKey(n.Args[0].(StrLit).V), n.Args[1].(IntLit).V)
		_, ok := c.st.snaps[key]
		return CVal{T: fmt.Sprint(ok), Sort: "Bool"}
	case "concat":
		return CVal{T: fmt.Sprintf("(str.++ %s %s)", arg(0).T, arg(1).T), Sort: "String"}
	case "has":
		m := arg(0)
		mt := m.GoT.Underlying().(*types.Map)
		hd := c.e.sorts.HeapMapDom(c.e.sorts.SortOf(mt.Key()))
		return CVal{T: fmt.Sprintf("(select (select %s %s) %s)", c.heap(hd), m.T, arg(1).T), Sort: "Bool"}
	case "b8": // b8(5): a byte literal
		return toBV(arg(0))
	case "asbyte": // asbyte(t): the term (e.g. a spec function application) is a byte
		return CVal{T: arg(0).T, Sort: "(_ BitVec 8)"}
	case "oid": // oid("2.5.4.6"): a literal OBJECT IDENTIFIER value
		lit, ok := n.Args[0].(StrLit)
		if !ok {
			bindFail("oid() takes a string literal")
		}
		return CVal{T: oidLit(lit.V), Sort: "OidV"}
	case "unboxRef":
		return CVal{T: fmt.Sprintf("(unboxRef %s)", arg(0).T), Sort: "Int"}
	case "deep":
		return CVal{T: c.deepTerm(arg(0)), Sort: "Deep"}
	case "unboxed": // unboxed(v, "pkg.T"): the concrete value inside an interface whose dynamic type is statically known
		a := arg(0)
		bi, ok := c.st.boxed[a.T]
		if !ok || bi.Typ.String() != expandType(n.Args[1].(StrLit).V) {
			bindFail("unboxed: dynamic type of %s is not statically %s", a.T, n.Args[1].(StrLit).V)
		}
		return c.val(bi.Term, bi.Typ)
	case "bound": // bound(NAME): the ghost result / variable NAME exists on this path (decided statically)
		id, ok := n.Args[0].(Ident)
		if !ok {
			bindFail("bound() takes a name")
		}
		if t, ok := c.boundTerm[id.Name]; ok {
			return CVal{T: t, Sort: "Bool"}
		}
		_, has := c.vars[id.Name]
		return CVal{T: fmt.Sprint(has), Sort: "Bool"}
	case "isclosure": // isclosure(f, "pkg.Outer$1"): f is the closure of that function literal created on this path
		a := arg(0)
		ci, ok := c.st.closures[a.T]
		if !ok {
			return CVal{T: "false", Sort: "Bool"}
		}
		return CVal{T: fmt.Sprint(ci.Fn.String() == c.calleeKey(n.Args[1].(StrLit).V)), Sort: "Bool"}
	case "captured": // captured(f, k): the k-th captured variable (a pointer to its cell) of a closure created on this path
		a := arg(0)
		ci, ok := c.st.closures[a.T]
		k, _ := strconv.Atoi(n.Args[1].(IntLit).V)
		if !ok || k >= len(ci.Bindings) {
			bindFail("captured: %s is not a closure created on this path", a.T)
		}
		return c.val(ci.Bindings[k], ci.Types[k])
	case "payload": // payload(v, "pkg.T"): the struct value of type T inside the interface value v (meaningful where typeis(v, "pkg.T"))
		a := arg(0)
		tn := expandType(n.Args[1].(StrLit).V)
		gt := c.e.lookupNamed(tn)
		if gt == nil {
			bindFail("payload: type %s not found", tn)
		}
		srt := c.e.sorts.SortOf(gt)
		c.e.declOnce(fmt.Sprintf("(declare-fun payload_%s (Any) %s)", srt, srt))
		return c.val(fmt.Sprintf("(payload_%s %s)", srt, a.T), gt)
	case "unbox": // unbox(v): the concrete value inside an interface whose dynamic type is statically known (whatever it is)
		a := arg(0)
		bi, ok := c.st.boxed[a.T]
		if !ok {
			bindFail("unbox: dynamic type of %s is not statically known", a.T)
		}
		return c.val(bi.Term, bi.Typ)
	case "typeis":
		if arg(0).T == "nilAny" {
			return CVal{T: "false", Sort: "Bool"}
		}
		if bi, ok := c.st.boxed[arg(0).T]; ok { // decided statically
			return CVal{T: fmt.Sprint(bi.Typ.String() == expandType(n.Args[1].(StrLit).V)), Sort: "Bool"}
		}
		tag := "tag_" + sanitize(expandType(n.Args[1].(StrLit).V))
		c.e.declOnce(fmt.Sprintf("(declare-const %s Int)", tag))
		return CVal{T: fmt.Sprintf("(= (typeof %s) %s)", arg(0).T, tag), Sort: "Bool"}
	case "deref":
		a := arg(0)
		pt := a.GoT.Underlying().(*types.Pointer)
		srt := c.e.sorts.SortOf(pt.Elem())
		return c.val(fmt.Sprintf("(select %s %s)", c.heap(c.e.sorts.HeapObj(srt)), a.T), pt.Elem())
	}
	if mf, ok := c.e.modelFields[n.Fun]; ok {
		return CVal{T: fmt.Sprintf("(select %s %s)", c.heap(mf), arg(0).T), Sort: "?"}
	}
	// application of a spec function / uninterpreted function declared in a prelude
	name := strings.TrimPrefix(n.Fun, "spec.")
	name = strings.TrimPrefix(name, "#")
	if len(n.Args) == 0 {
		if strings.HasPrefix(name, "G_") { // a package-level pointer variable referred to by its engine symbol
			if c.e.autoGlobals == nil {
				c.e.autoGlobals = map[string]bool{}
			}
			c.e.autoGlobals[name] = true // declared as Int at the end unless the execution declares it itself
		}
		return CVal{T: name, Sort: "?"}
	}
	var as []string
	for i := range n.Args {
		a := arg(i)
		if a.Nil {
			bindFail("nil as argument of %s", name)
		}
		as = append(as, a.T)
	}
	return CVal{T: fmt.Sprintf("(%s %s)", name, strings.Join(as, " ")), Sort: "?"}
}

// collectEntries finds entry(e) sub-expressions (single-argument form).
func collectEntries(x Expr, out *[]Expr) {
	switch n := x.(type) {
	case Unary:
		collectEntries(n.X, out)
	case Binary:
		collectEntries(n.X, out)
		collectEntries(n.Y, out)
	case Sel:
		collectEntries(n.X, out)
	case Index:
		collectEntries(n.X, out)
		collectEntries(n.I, out)
	case Forall:
		collectEntries(n.Lo, out)
		collectEntries(n.Hi, out)
		collectEntries(n.Body, out)
	case Ite:
		collectEntries(n.C, out)
		collectEntries(n.A, out)
		collectEntries(n.B, out)
	case Call:
		if n.Fun == "entry" && len(n.Args) == 1 {
			*out = append(*out, n.Args[0])
			return
		}
		for _, a := range n.Args {
			collectEntries(a, out)
		}
	}
}

// smtStr renders a Go string (a byte sequence) as an SMT-LIB 2.6 string literal.
func smtStr(s string) string {
	var b strings.Builder
	b.WriteByte('"')
	for i := 0; i < len(s); i++ {
		ch := s[i]
		switch {
		case ch == '"':
			b.WriteString("\"\"")
		case ch >= 0x20 && ch <= 0x7e && ch != '\\':
			b.WriteByte(ch)
		default:
			fmt.Fprintf(&b, "\\u{%x}", ch)
		}
	}
	b.WriteByte('"')
	return b.String()
}

// LVal is an assignable location: a field path inside the object a pointer refers to.
type LVal struct {
	Ref  string
	Root types.Type
	Path []int
	Typ  types.Type
}

// Lvalue compiles x.f.g (x a pointer, possibly through embedded pointers) or deref(p).f into a location.
func (c *CCtx) Lvalue(x Expr) LVal {
	switch n := x.(type) {
	case Sel:
		// try: base is itself a location
		var base LVal
		baseOK := false
		func() {
			defer func() {
				if r := recover(); r != nil {
					if _, isB := r.(BindingError); !isB {
						panic(r)
					}
				}
			}()
			base = c.Lvalue(n.X)
			baseOK = true
		}()
		var cur types.Type
		var lv LVal
		if baseOK {
			cur, lv = base.Typ, base
		} else {
			v := c.Compile(n.X)
			pt, ok := v.GoT.Underlying().(*types.Pointer)
			if !ok {
				bindFail("assigns: %v is not a location", x)
			}
			cur, lv = pt.Elem(), LVal{Ref: v.T, Root: pt.Elem(), Typ: pt.Elem()}
		}
		if pt, ok := cur.Underlying().(*types.Pointer); ok { // the location holds a pointer: go through it
			srt := c.e.sorts.SortOf(lv.Root)
			val := c.e.project(fmt.Sprintf("(select %s %s)", c.heap(c.e.sorts.HeapObj(srt)), lv.Ref), lv.Root, lv.Path)
			cur, lv = pt.Elem(), LVal{Ref: val, Root: pt.Elem(), Typ: pt.Elem()}
		}
		obj, path, _ := types.LookupFieldOrMethod(cur, true, nil, n.Name)
		if obj == nil {
			if nn, ok := cur.(*types.Named); ok {
				obj, path, _ = types.LookupFieldOrMethod(cur, true, nn.Obj().Pkg(), n.Name)
			}
		}
		if _, ok := obj.(*types.Var); !ok {
			bindFail("assigns: no field %s", n.Name)
		}
		for _, fi := range path {
			if pt, ok := cur.Underlying().(*types.Pointer); ok {
				srt := c.e.sorts.SortOf(lv.Root)
				val := c.e.project(fmt.Sprintf("(select %s %s)", c.heap(c.e.sorts.HeapObj(srt)), lv.Ref), lv.Root, lv.Path)
				cur, lv = pt.Elem(), LVal{Ref: val, Root: pt.Elem()}
			}
			st := cur.Underlying().(*types.Struct)
			lv.Path = append(append([]int{}, lv.Path...), fi)
			cur = st.Field(fi).Type()
		}
		lv.Typ = cur
		return lv
	case Call:
		if n.Fun == "deref" {
			v := c.Compile(n.Args[0])
			pt := v.GoT.Underlying().(*types.Pointer)
			return LVal{Ref: v.T, Root: pt.Elem(), Typ: pt.Elem()}
		}
	}
	bindFail("assigns: %v is not a location", x)
	return LVal{}
}

// oidLit renders a dotted OID as a ground term of the OidV datatype.
func oidLit(dotted string) string {
	t := "onil"
	for _, p := range strings.Split(dotted, ".") {
		t = fmt.Sprintf("(osnoc %s %s)", t, p)
	}
	return t
}

// calleeKey expands the abbreviations gopki/ and generator/ in callee names written in contracts.
func (c *CCtx) calleeKey(k string) string {
	if strings.HasPrefix(k, "invoke:") {
		return "invoke:" + c.calleeKey(strings.TrimPrefix(k, "invoke:"))
	}
	for _, pre := range []string{"(*", "(", ""} {
		if strings.HasPrefix(k, pre+"gopki/") {
			return pre + modPrefix + "/" + strings.TrimPrefix(k, pre+"gopki/")
		}
	}
	return k
}

// expandType expands the abbreviation gopki/ in type names written in contracts.
func expandType(tn string) string {
	star := ""
	if strings.HasPrefix(tn, "*") {
		star, tn = "*", tn[1:]
	}
	if strings.HasPrefix(tn, "gopki/") {
		tn = modPrefix + "/" + strings.TrimPrefix(tn, "gopki/")
	}
	return star + tn
}

// basicTypeOf: "string", "int", "bool", "byte" and slices of them.
func basicTypeOf(tn string) types.Type {
	if strings.HasPrefix(tn, "[]") {
		if el := basicTypeOf(tn[2:]); el != nil {
			return types.NewSlice(el)
		}
		return nil
	}
	if obj := types.Universe.Lookup(tn); obj != nil {
		if tnm, ok := obj.(*types.TypeName); ok {
			return tnm.Type()
		}
	}
	return nil
}

// collectEntriesOrd finds entry(ord, e) sub-expressions for the given loop ordinal.
func collectEntriesOrd(x Expr, ord int, out *[]Expr) {
	switch n := x.(type) {
	case Unary:
		collectEntriesOrd(n.X, ord, out)
	case Binary:
		collectEntriesOrd(n.X, ord, out)
		collectEntriesOrd(n.Y, ord, out)
	case Sel:
		collectEntriesOrd(n.X, ord, out)
	case Index:
		collectEntriesOrd(n.X, ord, out)
		collectEntriesOrd(n.I, ord, out)
	case Forall:
		if n.Lo != nil {
			collectEntriesOrd(n.Lo, ord, out)
		}
		if n.Hi != nil {
			collectEntriesOrd(n.Hi, ord, out)
		}
		collectEntriesOrd(n.Body, ord, out)
	case Ite:
		collectEntriesOrd(n.C, ord, out)
		collectEntriesOrd(n.A, ord, out)
		collectEntriesOrd(n.B, ord, out)
	case Call:
		if n.Fun == "entry" && len(n.Args) == 2 {
			if lit, ok := n.Args[0].(IntLit); ok && lit.V == fmt.Sprint(ord) {
				*out = append(*out, n.Args[1])
			}
			return
		}
		for _, a := range n.Args {
			collectEntriesOrd(a, ord, out)
		}
	}
}

// lookupNamed: the named type "pkg/path.Name" of the loaded program, nil if there is none.
func (e *Exec) lookupNamed(tn string) types.Type {
	i := strings.LastIndex(tn, ".")
	if i < 0 {
		return nil
	}
	pk := e.fn.Prog.ImportedPackage(tn[:i])
	if pk == nil || pk.Type(tn[i+1:]) == nil {
		return nil
	}
	return pk.Type(tn[i+1:]).Type()
}
