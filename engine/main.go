package main

import (
	"flag"
	"fmt"
	"os"
	"strconv"
)

func main() {
	if len(os.Args) < 2 {
		fmt.Println("usage: verif check --property Cxx --tier quick|thorough | verif replay <file> | verif list")
		os.Exit(2)
	}
	switch os.Args[1] {
	case "check":
		fs := flag.NewFlagSet("check", flag.ExitOnError)
		var opt Options
		fs.StringVar(&opt.Property, "property", "", "property id")
		fs.StringVar(&opt.Tier, "tier", "quick", "quick|thorough")
		fs.StringVar(&opt.RepoDir, "repo", "/repo", "repository working tree")
		fs.StringVar(&opt.VerifDir, "verif", "/verif", "verification directory")
		fs.StringVar(&opt.Only, "only", "", "restrict to units containing this text (debugging; evidence is partial)")
		fs.BoolVar(&opt.Keep, "keep", false, "keep all query files")
		fs.BoolVar(&opt.Verbose, "v", false, "verbose")
		fs.Parse(os.Args[2:])
		if t := os.Getenv("VERIF_TIER"); t != "" && opt.Tier == "" {
			opt.Tier = t
		}
		if s := os.Getenv("VERIF_SEED"); s != "" {
			opt.Seed, _ = strconv.Atoi(s)
		}
		os.Exit(RunCheck(opt))
	case "replay":
		os.Exit(RunReplay(os.Args[2:]))
	case "list":
		os.Exit(RunList(os.Args[2:]))
	default:
		fmt.Println("unknown command", os.Args[1])
		os.Exit(2)
	}
}
