package main

import (
	"context"
	"encoding/json"
	"fmt"
	"os"
	"path/filepath"
	"sort"
	"strings"
	"sync"
	"time"
)

var globalCS *ContractSet
var boundedGlobal []map[string]any
var findingReplaysGlobal []map[string]any

type Options struct {
	Property string
	Tier     string
	RepoDir  string
	VerifDir string
	Seed     int
	Keep     bool
	Only     string // restrict to units whose short name contains this (debugging)
	Verbose  bool
}

type OblResult struct {
	Name     string   `json:"name"`
	Kind     string   `json:"kind"`
	Unit     string   `json:"unit"`
	VCs      int      `json:"vcs"`
	Result   string   `json:"result"` // discharged | failed | known-finding
	Backends []string `json:"backends"`
	Seconds  float64  `json:"seconds"`
	Src      string   `json:"src,omitempty"`
	failed   []*VCJob
}

type KnownFinding struct {
	Property   string `json:"property"`
	Obligation string `json:"obligation"` // unit#name
	When       string `json:"when"`       // SMT formula over the unit's entry symbols describing the failing inputs
	Text       string `json:"text"`
	Replay     string `json:"replay,omitempty"` // harness test that must still fail on the real code
	Status     string `json:"status"`           // open | fixed
	Commit     string `json:"commit,omitempty"`
}

type FindingsFile struct {
	Findings []KnownFinding `json:"findings"`
	Fixed    []string       `json:"fixed"`
}

func loadFindings(verifDir string) *FindingsFile {
	ff := &FindingsFile{}
	b, err := os.ReadFile(filepath.Join(verifDir, "known_findings.json"))
	if err == nil {
		json.Unmarshal(b, ff)
	}
	return ff
}

func vcRelevant(o *Obligation, unitProps []string, prop string) bool {
	if prop == "" {
		return true
	}
	ps := o.Props
	if len(ps) == 0 {
		// C20's run executes every unit and assumes its invariants, preconditions and callee postconditions when it
		// proves the safety obligations. The clauses that carry no property tag are the structural ones (index ranges,
		// lengths, nil-ness): they are obligations of C20's run in every unit, also where the unit's props line does not
		// name C20 - otherwise a bounds proof could rest on an invariant nobody proved in this run (seeded C20-5).
		if prop == "C20" {
			return true
		}
		ps = unitProps
	}
	return hasProp(ps, prop)
}

// RunCheck is the quick/thorough command of one property. Exit code: 0 held, 1 violation, 2 tool failure.
func RunCheck(opt Options) int {
	t0 := time.Now()
	fail := func(f string, a ...any) int {
		fmt.Printf("TOOL-ERROR property=%s %s\n", opt.Property, fmt.Sprintf(f, a...))
		return 2
	}
	prog, err := LoadProgram(opt.RepoDir)
	if err != nil {
		return fail("loading %s: %v", opt.RepoDir, err)
	}
	cs, err := LoadAllContracts(opt.VerifDir, opt.RepoDir, prog.ModPath)
	if err != nil {
		return fail("contracts: %v", err)
	}
	en := &Engine{Prog: prog, CS: cs, VerifDir: opt.VerifDir}
	globalCS = cs
	tLoad := time.Since(t0).Seconds()

	// units
	keys := en.unitsFor(opt.Property)
	var lemmas []*Lemma
	for _, l := range append(append([]*Lemma{}, cs.Lemmas...), shapeLemmas(prog, cs)...) {
		if opt.Property == "" || hasProp(l.Props, opt.Property) {
			lemmas = append(lemmas, l)
		}
	}
	type slot struct {
		key string
		lem *Lemma
		res *UnitResult
	}
	var slots []*slot
	for _, k := range keys {
		if opt.Only != "" && !strings.Contains(shortName(k), opt.Only) {
			continue
		}
		slots = append(slots, &slot{key: k})
	}
	for _, l := range lemmas {
		if opt.Only != "" && !strings.Contains("lemma."+l.Name, opt.Only) {
			continue
		}
		slots = append(slots, &slot{lem: l})
	}
	var wg sync.WaitGroup
	sem := make(chan struct{}, 8)
	for _, s := range slots {
		wg.Add(1)
		go func(s *slot) {
			defer wg.Done()
			sem <- struct{}{}
			defer func() { <-sem }()
			if s.lem != nil {
				s.res = en.RunLemma(s.lem)
			} else {
				s.res = en.RunUnit(s.key)
			}
		}(s)
	}
	wg.Wait()
	tGen := time.Since(t0).Seconds() - tLoad

	findings := loadFindings(opt.VerifDir)
	var jobs []*VCJob
	var units []*UnitResult
	undecided := []string{}
	jobsOf := func(u *UnitResult) []*VCJob {
		var js []*VCJob
		for i := range u.VCs {
			o := &u.VCs[i]
			if !vcRelevant(o, u.Props, opt.Property) {
				continue
			}
			for _, kf := range findings.Findings { // refined obligation: outside the listed inputs the postcondition must hold
				if kf.Status != "fixed" && kf.Property == opt.Property && kf.Obligation == u.Name+"#"+o.Name && kf.When != "" {
					o.Assume = append(o.Assume, "(not "+kf.When+")")
				}
			}
			js = append(js, &VCJob{Unit: u, Obl: o})
		}
		return js
	}
	workDir := filepath.Join(opt.VerifDir, "work", opt.Property+"_"+opt.Tier)
	os.RemoveAll(workDir)
	s1, s2 := 3, 20
	if opt.Tier == "thorough" {
		s1, s2 = 5, 60
	}
	// A contract names the locals of its function. When a name no longer binds (the local was renamed), the other locals
	// of the function that the contract does not mention are tried in its place; a binding is kept only if the unit then
	// binds completely and every one of its obligations is discharged. Sound for any choice: all obligations, including
	// initiation and preservation of every invariant, are proved under the binding that is kept.
	var notes []string
	for _, s := range slots {
		if s.lem != nil || s.res == nil || s.res.Kind != "func" {
			continue
		}
		missing := missingNames(s.res, cs.Funcs[s.key])
		if len(missing) == 0 || len(missing) > 2 {
			continue
		}
		cands := en.rebindCandidates(s.key, len(missing) == 1 && missing[0] == "idx")
		if len(missing) == 1 && missing[0] == "idx" { // loop counters have short names: try those first
			sort.SliceStable(cands, func(a, b int) bool { return len(cands[a]) < len(cands[b]) })
		}
		if os.Getenv("VERIF_DEBUG") != "" {
			fmt.Fprintln(os.Stderr, "rebind", s.key, "missing", missing, "candidates", cands)
		}
		if len(cands) == 0 || len(cands) > 24 {
			continue
		}
		var tries []map[string]string
		if len(missing) == 1 {
			for _, c := range cands {
				tries = append(tries, map[string]string{missing[0]: c})
			}
		} else {
			for _, c := range cands {
				for _, d := range cands {
					if c != d {
						tries = append(tries, map[string]string{missing[0]: c, missing[1]: d})
					}
				}
			}
		}
		proofs := 0 // binding attempts are cheap (no solver); attempts that bind completely go to the solvers, at most four
		for n, alias := range tries {
			if n >= 200 || proofs >= 4 {
				break
			}
			u2 := en.runUnit(s.key, alias)
			if os.Getenv("VERIF_DEBUG") != "" {
				fmt.Fprintln(os.Stderr, "rebind try", alias, "error", u2.Error, "undecided", len(u2.Undecided), firstLine(strings.Join(u2.Undecided, " | ")))
			}
			if u2.Error != "" || len(u2.Undecided) > 0 {
				continue
			}
			proofs++
			js := jobsOf(u2)
			Discharge(js, filepath.Join(workDir, fmt.Sprintf("rebind_%s_%d", sanitize(u2.Name), n)), s1, s2, false)
			ok := len(js) > 0
			for _, j := range js {
				if j.Status != "unsat" {
					ok = false
				}
			}
			if ok {
				var parts []string
				for k, v := range alias {
					parts = append(parts, fmt.Sprintf("%s -> %s", k, v))
				}
				sort.Strings(parts)
				notes = append(notes, fmt.Sprintf("unit=%s contract names rebound to renamed locals (%s); every obligation of the unit re-proved under this binding", u2.Name, strings.Join(parts, ", ")))
				s.res = u2
				break
			}
		}
	}
	for _, n := range notes {
		fmt.Printf("NOTE property=%s %s\n", opt.Property, n)
	}
	for _, s := range slots {
		u := s.res
		units = append(units, u)
		if u.Error != "" {
			undecided = append(undecided, fmt.Sprintf("unit=%s reason=%s", u.Name, u.Error))
			continue
		}
		for _, m := range u.Undecided {
			undecided = append(undecided, fmt.Sprintf("unit=%s reason=%s", u.Name, m))
		}
		jobs = append(jobs, jobsOf(u)...)
	}
	Discharge(jobs, workDir, s1, s2, opt.Tier == "thorough")

	// group by obligation
	byObl := map[string]*OblResult{}
	var order []string
	solverSecs := 0.0
	backends := map[string]int{}
	toolErr := []string{}
	for _, j := range jobs {
		name := j.Unit.Name + "#" + j.Obl.Name
		r, ok := byObl[name]
		if !ok {
			r = &OblResult{Name: name, Kind: j.Obl.Kind, Unit: j.Unit.Name, Result: "discharged", Src: j.Obl.Src}
			byObl[name] = r
			order = append(order, name)
		}
		r.VCs++
		r.Seconds += j.Secs
		solverSecs += j.Secs
		backends[j.By]++
		if !contains(r.Backends, j.By) {
			r.Backends = append(r.Backends, j.By)
		}
		if j.Status == "error" {
			toolErr = append(toolErr, fmt.Sprintf("%s: %s", name, firstLine(j.Output)))
		}
		if j.Status != "unsat" {
			r.Result = "failed"
			r.failed = append(r.failed, j)
		}
	}
	sort.Strings(order)

	// vacuity guards
	vac := vacuityGuards(units, jobs, workDir)

	// verdicts
	violations := 0
	var out []string
	replayDir := filepath.Join(opt.VerifDir, "replays", opt.Property)
	os.MkdirAll(replayDir, 0755)
	discharged := 0
	knownPrinted := map[string]bool{}
	var findingReplays []map[string]any
	for _, name := range order {
		r := byObl[name]
		if r.Result == "discharged" {
			discharged++
			continue
		}
		path, hr := writeReplay(replayDir, opt, r, prog.ModPath)
		suffix := ""
		if !(replayHasInput(r) || hr.Status == "confirmed" || hr.Status == "violation") {
			suffix = " no-failing-input-found"
		}
		out = append(out, fmt.Sprintf("VIOLATION property=%s replay=%s%s", opt.Property, path, suffix))
		violations++
	}
	for _, kf := range findings.Findings {
		if kf.Status == "fixed" || kf.Property != opt.Property {
			continue
		}
		if r, ok := byObl[kf.Obligation]; ok && r.Result == "discharged" && !knownPrinted[kf.Obligation] {
			knownPrinted[kf.Obligation] = true
			r.Result = "known-finding"
			fmt.Printf("KNOWN-FINDING: property=%s %s\n", opt.Property, kf.Text)
			if pkgRel, test, ok := strings.Cut(kf.Replay, ":"); ok && opt.Tier == "thorough" { // the finding is shown again on the real code
				hr := runHarness(opt, pkgRel, test, map[string]string{}, 120*time.Second)
				findingReplays = append(findingReplays, map[string]any{"obligation": kf.Obligation, "test": kf.Replay, "status": hr.Status, "text": hr.Text})
				if hr.Status != "confirmed" {
					fmt.Printf("NOTE property=%s the listed finding %s did not reproduce on the real code (%s): it may have been repaired; update known_findings.json\n", opt.Property, kf.Obligation, hr.Status)
				}
			}
		}
	}
	for _, u := range undecided {
		fmt.Printf("UNDECIDED property=%s %s\n", opt.Property, u)
	}

	// bounded stand-ins: for units whose contract abstracts a loop (quick and thorough) and for every unit that names
	// one (thorough). They are labelled bounded and never counted as discharged obligations.
	var bounded []map[string]any
	ranTests := map[string]bool{}
	for _, u := range units {
		if u.Bounded == "" || u.Kind == "lemma" {
			continue
		}
		fc := cs.Funcs[u.Full]
		need := opt.Tier == "thorough" || (fc != nil && len(fc.AbstractLoops) > 0) || u.Error != "" || len(u.Undecided) > 0
		if !need || ranTests[u.Pkg+"/"+u.Bounded] {
			continue
		}
		ranTests[u.Pkg+"/"+u.Bounded] = true
		hr := runHarness(opt, pkgRelOf(prog.ModPath, u.Pkg), u.Bounded, map[string]string{}, 300*time.Second)
		bounded = append(bounded, map[string]any{"unit": u.Name, "test": u.Bounded, "status": hr.Status, "cases": hr.Cases, "text": hr.Text, "label": "bounded"})
		switch hr.Status {
		case "violation":
			p := filepath.Join(replayDir, sanitize(u.Name)+"__bounded.json")
			b, _ := json.MarshalIndent(map[string]any{"property": opt.Property, "obligation": u.Name + "#bounded." + u.Bounded, "harness": hr}, "", " ")
			os.WriteFile(p, b, 0644)
			out = append(out, fmt.Sprintf("VIOLATION property=%s replay=%s", opt.Property, p))
			violations++
		case "ok":
		default:
			toolErr = append(toolErr, fmt.Sprintf("bounded stand-in %s of %s did not run: %s", u.Bounded, u.Name, firstLine(hr.Text)))
		}
	}
	// a unit whose obligations could not be generated from the current source (the code left the verified subset, a
	// clause no longer binds) has none of its clauses discharged: unless its bounded stand-in explored it, that is
	// reported like an obligation no solver decided
	boundedRan := map[string]bool{}
	for _, b := range bounded {
		if b["status"] == "ok" || b["status"] == "violation" {
			boundedRan[fmt.Sprint(b["unit"])] = true
		}
	}
	for _, u := range units {
		if (u.Error == "" && len(u.Undecided) == 0) || boundedRan[u.Name] || u.Kind == "lemma" {
			continue
		}
		reason := u.Error
		if reason == "" {
			reason = strings.Join(u.Undecided, "; ")
		}
		p := filepath.Join(replayDir, sanitize(u.Name)+"__undecided.json")
		b, _ := json.MarshalIndent(map[string]any{"property": opt.Property, "obligation": u.Name + "#contract", "verdict": "no obligation of this unit's contract could be generated from the current source, so none is discharged; they were discharged on the tree the contracts were written for",
			"reason": reason, "failing_input": nil}, "", " ")
		os.WriteFile(p, b, 0644)
		out = append(out, fmt.Sprintf("VIOLATION property=%s replay=%s no-failing-input-found", opt.Property, p))
		violations++
	}
	boundedGlobal = bounded
	findingReplaysGlobal = findingReplays
	for _, l := range out {
		fmt.Println(l)
	}

	// evidence
	writeEvidence(opt, units, order, byObl, discharged, violations, undecided, vac, backends, solverSecs, tLoad, tGen, time.Since(t0).Seconds(), len(jobs))
	if !opt.Keep && violations == 0 {
		keepSamples(workDir)
	}
	fmt.Printf("property=%s tier=%s units=%d obligations=%d discharged=%d vcs=%d undecided=%d violations=%d wall=%.1fs (load %.1fs, vcgen %.1fs, solver cpu %.1fs)\n",
		opt.Property, opt.Tier, len(units), len(order), discharged, len(jobs), len(undecided), violations, time.Since(t0).Seconds(), tLoad, tGen, solverSecs)
	if len(toolErr) > 0 {
		for _, t := range toolErr {
			fmt.Println("TOOL-ERROR solver:", t)
		}
		return 2
	}
	if len(vac) > 0 {
		for _, v := range vac {
			fmt.Println("TOOL-ERROR vacuity:", v)
		}
		return 2
	}
	if len(order) == 0 {
		fmt.Println("TOOL-ERROR no obligations generated")
		return 2
	}
	if violations > 0 {
		return 1
	}
	return 0
}

func contains(xs []string, x string) bool {
	for _, y := range xs {
		if y == x {
			return true
		}
	}
	return false
}

func firstLine(s string) string {
	for _, l := range strings.Split(s, "\n") {
		if strings.Contains(l, "(error") {
			return strings.TrimSpace(l)
		}
	}
	return strings.SplitN(s, "\n", 2)[0]
}

// vacuityGuards: per unit, the assumptions of at least one post/at/table obligation must be satisfiable
// (not unsat) — a contradictory requires or trusted contract would otherwise prove everything.
func vacuityGuards(units []*UnitResult, jobs []*VCJob, dir string) []string {
	var bad []string
	perUnit := map[*UnitResult][]*VCJob{}
	for _, j := range jobs {
		if j.Obl.Kind == "post" || j.Obl.Kind == "at" || j.Obl.Kind == "table" || j.Obl.Kind == "inv" {
			perUnit[j.Unit] = append(perUnit[j.Unit], j)
		}
	}
	type chk struct {
		u      *UnitResult
		file   string
		st     string
		second bool
	}
	var chks []*chk
	for u, js := range perUnit {
		// sample distinct paths across the whole range of assumption-list lengths (some paths are legitimately
		// infeasible); the unit passes if any sampled path is satisfiable
		sort.Slice(js, func(a, b int) bool { return len(js[a].Obl.Assume) > len(js[b].Obl.Assume) })
		if len(js) > 64 {
			var pick []*VCJob
			for k := 0; k < 64; k++ {
				pick = append(pick, js[k*(len(js)-1)/63])
			}
			js = pick
		}
		n := 0
		seen := map[string]bool{}
		for _, j := range js {
			key := fmt.Sprint(j.Obl.Path)
			if seen[key] {
				continue
			}
			dead := false
			for _, a := range j.Obl.Assume { // paths that end in a call that does not return (os.Exit)
				if a == "false" {
					dead = true
				}
			}
			if dead {
				continue
			}
			seen[key] = true
			var b strings.Builder
			b.WriteString(u.Header)
			for _, a := range j.Obl.Assume {
				b.WriteString("(assert " + a + ")\n")
			}
			b.WriteString("(check-sat)\n")
			f := filepath.Join(dir, fmt.Sprintf("vac_%s_%d.smt2", sanitize(u.Name), n))
			os.WriteFile(f, []byte(b.String()), 0644)
			chks = append(chks, &chk{u: u, file: f, second: n < 4})
			n++
			if n >= 48 {
				break
			}
		}
	}
	var wg sync.WaitGroup
	sem := make(chan struct{}, 14)
	for _, c := range chks {
		wg.Add(1)
		go func(c *chk) {
			defer wg.Done()
			sem <- struct{}{}
			defer func() { <-sem }()
			c.st, _ = runSolver(context.Background(), solvers["z3-new"], c.file, 2)
			// a contradiction among the axioms may be found under one seed only (the bePad axiom, 0.6): the first paths of
			// every unit are also tried with the second seed of the portfolio
			if c.st != "unsat" && c.second {
				if st2, _ := runSolver(context.Background(), solvers["z3-new#7"], c.file, 3); st2 == "unsat" {
					c.st = "unsat"
				}
			}
		}(c)
	}
	wg.Wait()
	okUnit := map[*UnitResult]bool{}
	anyUnit := map[*UnitResult]bool{}
	for _, c := range chks {
		anyUnit[c.u] = true
		if c.st != "unsat" {
			okUnit[c.u] = true
		}
	}
	for u := range anyUnit {
		if !okUnit[u] {
			bad = append(bad, u.Name+": every sampled path has contradictory assumptions")
		}
	}
	sort.Strings(bad)
	return bad
}

func replayHasInput(r *OblResult) bool {
	for _, j := range r.failed {
		if j.Status == "sat" {
			return true
		}
	}
	return false
}

// writeReplay records a failed obligation: its name, clause, the failing VCs with solver verdicts and, for sat, the model.
func writeReplay(dir string, opt Options, r *OblResult, modPath string) (string, HarnessResult) {
	type vcRec struct {
		Path   []int  `json:"path"`
		Status string `json:"status"`
		Solver string `json:"solver"`
		File   string `json:"vc_file"`
		Output string `json:"solver_output"`
		Model  map[string]string `json:"model,omitempty"`
	}
	rec := map[string]any{
		"property":   opt.Property,
		"obligation": r.Name,
		"kind":       r.Kind,
		"clause":     r.Src,
		"tier":       opt.Tier,
	}
	var vcs []vcRec
	for i, j := range r.failed {
		if i >= 5 {
			break
		}
		v := vcRec{Path: j.Obl.Path, Status: j.Status, Solver: j.By, Output: j.Output}
		// keep the query next to the replay file
		dst := filepath.Join(dir, sanitize(r.Name)+fmt.Sprintf("_%d.smt2", i))
		if b, err := os.ReadFile(j.File); err == nil {
			os.WriteFile(dst, b, 0644)
			v.File = dst
		}
		if j.Status == "sat" && i == 0 {
			v.Model = modelOf(j)
		}
		vcs = append(vcs, v)
	}
	rec["failing_vcs"] = vcs
	rec["failing_vc_count"] = len(r.failed)
	p := filepath.Join(dir, sanitize(r.Name)+".json")
	b, _ := json.MarshalIndent(rec, "", " ")
	os.WriteFile(p, b, 0644)
	// replay on the real code: the unit's replay test gets the model; without a model its bounded search runs instead
	var hr HarnessResult
	if len(r.failed) > 0 {
		u := r.failed[0].Unit
		if u.Replay != "" && len(vcs) > 0 && vcs[0].Model != nil {
			hr = runHarness(opt, pkgRelOf(modPath, u.Pkg), u.Replay, map[string]string{"VERIF_REPLAY": p}, 60*time.Second)
		}
		if hr.Status != "confirmed" && u.Bounded != "" {
			hb := runHarness(opt, pkgRelOf(modPath, u.Pkg), u.Bounded, map[string]string{}, 120*time.Second)
			if hb.Status == "violation" || !hr.Ran {
				hr = hb
			}
		}
		if hr.Ran {
			rec["harness"] = hr
			b, _ = json.MarshalIndent(rec, "", " ")
			os.WriteFile(p, b, 0644)
		}
	}
	return p, hr
}

func keepSamples(dir string) {
	// keep a handful of query files as samples, drop the rest to save disk
	ents, _ := os.ReadDir(dir)
	kept := 0
	for _, e := range ents {
		if strings.HasPrefix(e.Name(), "vc") && kept < 5 {
			kept++
			continue
		}
		os.Remove(filepath.Join(dir, e.Name()))
	}
}

func writeEvidence(opt Options, units []*UnitResult, order []string, byObl map[string]*OblResult, discharged, violations int, undecided, vac []string, backends map[string]int, solverSecs, tLoad, tGen, wall float64, nvc int) {
	var fns []map[string]any
	trusted := map[string]bool{}
	unmodelled := map[string]bool{}
	preludes := map[string]bool{}
	for _, u := range units {
		fns = append(fns, map[string]any{"unit": u.Name, "kind": u.Kind, "paths": u.Paths, "contract_file": u.File, "error": u.Error})
		for k := range u.Applied {
			trusted[k] = true
		}
		for _, k := range u.Unmodelled {
			unmodelled[k] = true
		}
		for _, p := range u.Preludes {
			preludes[p] = true
		}
	}
	var obls []*OblResult
	for _, n := range order {
		obls = append(obls, byObl[n])
	}
	var samples []any
	for i, n := range order {
		if i%max(1, len(order)/5) == 0 && len(samples) < 6 {
			samples = append(samples, map[string]any{"obligation": n, "kind": byObl[n].Kind, "clause": byObl[n].Src, "vcs": byObl[n].VCs, "result": byObl[n].Result, "backends": byObl[n].Backends})
		}
	}
	tb := []string{"go/packages + go/types + go/ssa (x/tools v0.29.0) as front end", "govc VC generator (/verif/engine)", "z3 5.1.0, z3 4.8.12, cvc5 1.0.3"}
	var assumed []string
	for k := range trusted {
		assumed = append(assumed, k)
	}
	sort.Strings(assumed)
	var trustedUsed, calleeContracts []string
	for _, k := range assumed {
		if strings.Contains(k, "wokdav/gopki") {
			calleeContracts = append(calleeContracts, k)
		} else {
			trustedUsed = append(trustedUsed, k)
		}
	}
	var unverified []string
	for k := range trusted {
		if fc, ok := globalCS.Funcs[k]; ok && fc.Unverified != "" {
			unverified = append(unverified, shortName(k)+": "+fc.Unverified)
		}
	}
	sort.Strings(unverified)
	assumptions := []string{
		"partial correctness only: termination is not verified",
		"Go int/int64 treated as mathematical integers (no overflow obligations generated); bytes are 8-bit vectors",
		"logging.* calls and the text of error/log messages are dropped",
		"sequential semantics, no resource exhaustion",
		"assumed library contracts (see /verif/trusted): " + strings.Join(trustedUsed, ", "),
	}
	for _, u := range unverified {
		assumptions = append(assumptions, "contract of a /repo function assumed, body not verified: "+u)
	}
	for k := range unmodelled {
		assumptions = append(assumptions, "unmodelled external (results fresh): "+k)
	}
	ev := map[string]any{
		"property_id": opt.Property,
		"tier":        opt.Tier,
		"seed":        opt.Seed,
		"level":       "proof",
		"wall_s":      wall,
		"violations":  violations,
		"assumptions": assumptions,
		"coverage": map[string]any{
			"obligations":              len(order),
			"discharged":               discharged,
			"verification_conditions":  nvc,
			"checker_cmd":              fmt.Sprintf("/verif/bin/verif check --property %s --tier %s", opt.Property, opt.Tier),
			"trusted_base":             tb,
			"functions_under_contract": fns,
			"callee_contracts_used":    calleeContracts,
			"assumed_contracts_used":   trustedUsed,
			"spec_files":               keysOf(preludes),
			"per_obligation":           obls,
			"backends":                 backends,
			"solver_seconds_total":     solverSecs,
			"load_seconds":             tLoad,
			"vcgen_seconds":            tGen,
			"undecided":                undecided,
			"bounded_standins":         boundedGlobal,
			"known_finding_replays":    findingReplaysGlobal,
			"vacuity_failures":         vac,
			"samples":                  samples,
		},
	}
	os.MkdirAll(filepath.Join(opt.VerifDir, "evidence"), 0755)
	b, _ := json.MarshalIndent(ev, "", " ")
	os.WriteFile(filepath.Join(opt.VerifDir, "evidence", opt.Property+".json"), b, 0644)
}

func keysOf(m map[string]bool) []string {
	var out []string
	for k := range m {
		out = append(out, k)
	}
	sort.Strings(out)
	return out
}
