package main

import (
	"bytes"
	"sort"
	"context"
	"crypto/sha256"
	"encoding/hex"
	"fmt"
	"os"
	"os/exec"
	"path/filepath"
	"strings"
	"sync"
	"syscall"
	"time"
)

// VCJob is one verification condition handed to the solvers.
type VCJob struct {
	Unit   *UnitResult
	Obl    *Obligation
	File   string
	Hash   string
	Status string // unsat | sat | unknown | timeout | error
	By     string
	Secs   float64
	Output string // first lines of solver output (model on sat)
	shared *VCJob // identical query already solved
}

func (j *VCJob) text() string {
	var b strings.Builder
	b.WriteString(j.Unit.Header)
	b.WriteString("; " + j.Unit.Name + "#" + j.Obl.Name + "\n")
	for _, a := range j.Obl.Assume {
		b.WriteString("(assert " + simpTerm(a) + ")\n")
	}
	b.WriteString("(assert (not " + simpTerm(j.Obl.Goal) + "))\n")
	return b.String()
}

type solverSpec struct {
	name string
	argv func(file string, secs int) []string
}

var solvers = map[string]solverSpec{
	"z3-new":   {"z3-new", func(f string, s int) []string { return []string{"z3-new", fmt.Sprintf("-T:%d", s), f} }},
	"z3-new#7": {"z3-new#7", func(f string, s int) []string { return []string{"z3-new", fmt.Sprintf("-T:%d", s), "smt.random_seed=7", "sat.random_seed=7", f} }},
	"z3":       {"z3", func(f string, s int) []string { return []string{"z3", fmt.Sprintf("-T:%d", s), f} }},
	"cvc5":     {"cvc5", func(f string, s int) []string { return []string{"cvc5", fmt.Sprintf("--tlimit=%d", s*1000), f} }},
}

func runSolver(ctx context.Context, sp solverSpec, file string, secs int) (status, out string) {
	argv := sp.argv(file, secs)
	cctx, cancel := context.WithTimeout(ctx, time.Duration(secs+2)*time.Second)
	defer cancel()
	cmd := exec.CommandContext(cctx, argv[0], argv[1:]...)
	cmd.SysProcAttr = &syscall.SysProcAttr{Setpgid: true}
	cmd.Cancel = func() error { return syscall.Kill(-cmd.Process.Pid, syscall.SIGKILL) }
	var buf bytes.Buffer
	cmd.Stdout = &buf
	cmd.Stderr = &buf
	cmd.Run()
	out = buf.String()
	first := strings.TrimSpace(strings.SplitN(strings.TrimSpace(out), "\n", 2)[0])
	switch {
	case strings.Contains(out, "(error"):
		return "error", out
	case first == "unsat" || first == "sat":
		return first, out
	case first == "unknown":
		return "unknown", out
	case ctx.Err() != nil:
		return "cancelled", out
	default:
		return "timeout", out
	}
}

// sexprArgs splits "(op a b c)" into op and its top-level arguments.
func sexprArgs(s string) (string, []string) {
	s = strings.TrimSpace(s)
	if len(s) < 2 || s[0] != '(' || s[len(s)-1] != ')' {
		return "", nil
	}
	parts := splitTop(s[1 : len(s)-1])
	if len(parts) == 0 {
		return "", nil
	}
	return parts[0], parts[1:]
}

// conjuncts splits a goal along implications, universal quantifiers and conjunctions:
// (=> A (and c1 c2)) gives (=> A c1), (=> A c2). A goal that is not a conjunction comes back alone.
func conjuncts(goal string) []string {
	op, args := sexprArgs(goal)
	switch {
	case op == "and" && len(args) > 0:
		var out []string
		for _, a := range args {
			out = append(out, conjuncts(a)...)
		}
		return out
	case op == "=>" && len(args) == 2:
		var out []string
		for _, c := range conjuncts(args[1]) {
			out = append(out, "(=> "+args[0]+" "+c+")")
		}
		return out
	case op == "forall" && len(args) == 2:
		var out []string
		for _, c := range conjuncts(args[1]) {
			out = append(out, "(forall "+args[0]+" "+c+")")
		}
		return out
	}
	return []string{goal}
}

// solveSplit: a goal no solver decided as a whole is tried conjunct by conjunct; it is proved if every conjunct is.
func solveSplit(j *VCJob, stage1, stage2 int, allSolvers bool) bool {
	cs := conjuncts(simpTerm(j.Obl.Goal))
	if len(cs) < 2 || len(cs) > 40 {
		return false
	}
	var b strings.Builder
	b.WriteString(j.Unit.Header)
	b.WriteString("; " + j.Unit.Name + "#" + j.Obl.Name + " (one conjunct)\n")
	for _, a := range j.Obl.Assume {
		b.WriteString("(assert " + simpTerm(a) + ")\n")
	}
	head := b.String()
	by := map[string]bool{}
	for i, c := range cs {
		f := strings.TrimSuffix(j.File, ".smt2") + fmt.Sprintf("_c%d.smt2", i)
		os.WriteFile(f, []byte(head+"(assert (not "+c+"))\n(check-sat)\n"), 0644)
		sub := &VCJob{Unit: j.Unit, Obl: j.Obl, File: f}
		solveOne(sub, stage1, stage2, allSolvers)
		if sub.Status != "unsat" {
			return false
		}
		by[sub.By] = true
	}
	var names []string
	for n := range by {
		names = append(names, n)
	}
	sort.Strings(names)
	j.Status, j.By, j.Output = "unsat", "split("+fmt.Sprint(len(cs))+"):"+strings.Join(names, "+"), ""
	return true
}

// solveOne: stage 1 is z3 5.1 alone with a short limit; stage 2 races z3 4.8.12, cvc5 and z3 5.1 with another seed.
func solveOne(j *VCJob, stage1, stage2 int, allSolvers bool) {
	t0 := time.Now()
	defer func() { j.Secs = time.Since(t0).Seconds() }()
	if allSolvers { // thorough: every solver must agree
		agree := ""
		for _, n := range []string{"z3-new", "z3", "cvc5"} {
			st, out := runSolver(context.Background(), solvers[n], j.File, stage2)
			if st == "error" && n == "cvc5" {
				continue // cvc5 1.0 rejects some z3 idioms (constant arrays over uninterpreted constants): not a verdict
			}
			if st == "error" {
				j.Status, j.By, j.Output = st, n, clip(out)
				return
			}
			if st == "sat" {
				j.Status, j.By, j.Output = st, n, clip(out)
				return
			}
			if st != "unsat" {
				j.Status, j.By, j.Output = st, n, clip(out)
				continue
			}
			agree += n + " "
		}
		if agree != "" { // at least one solver proved it and none refuted it (cvc5 alone decides some define-fun-rec goals)
			j.Status, j.By, j.Output = "unsat", strings.ReplaceAll(strings.TrimSpace(agree), " ", "+"), ""
		}
		return
	}
	st, out := runSolver(context.Background(), solvers["z3-new"], j.File, stage1)
	if st == "unsat" || st == "sat" || st == "error" {
		j.Status, j.By, j.Output = st, "z3-new", clip(out)
		return
	}
	ctx, cancel := context.WithCancel(context.Background())
	defer cancel()
	type r struct{ st, out, by string }
	names := []string{"z3", "cvc5", "z3-new#7", "z3-new"}
	ch := make(chan r, len(names))
	for _, n := range names {
		go func(n string) {
			s, o := runSolver(ctx, solvers[n], j.File, stage2)
			ch <- r{s, o, n}
		}(n)
	}
	j.Status, j.By, j.Output = st, "z3-new", clip(out)
	for range names {
		x := <-ch
		if x.st == "unsat" || x.st == "sat" {
			j.Status, j.By, j.Output = x.st, x.by, clip(x.out)
			return
		}
		if x.st == "error" && x.by != "cvc5" { // cvc5 rejects some z3 idioms; that is not a tool failure of the query
			j.Status, j.By, j.Output = x.st, x.by, clip(x.out)
		} else if x.st == "unknown" && j.Status != "error" {
			j.Status, j.By, j.Output = x.st, x.by, clip(x.out)
		}
	}
}

func clip(s string) string {
	if len(s) > 6000 {
		return s[:6000] + "\n...[clipped]"
	}
	return s
}

// Discharge writes every VC to dir and runs the portfolio in parallel. Identical queries are solved once.
func Discharge(jobs []*VCJob, dir string, stage1, stage2 int, allSolvers bool) {
	os.MkdirAll(dir, 0755)
	byHash := map[string]*VCJob{}
	var todo []*VCJob
	for i, j := range jobs {
		txt := j.text() + "(check-sat)\n"
		h := sha256.Sum256([]byte(txt))
		j.Hash = hex.EncodeToString(h[:8])
		if o, ok := byHash[j.Hash]; ok {
			j.shared = o
			continue
		}
		byHash[j.Hash] = j
		j.File = filepath.Join(dir, fmt.Sprintf("vc%05d_%s.smt2", i, j.Hash))
		os.WriteFile(j.File, []byte(txt), 0644)
		todo = append(todo, j)
	}
	workers := 14
	if allSolvers {
		workers = 14
	}
	sem := make(chan struct{}, workers)
	var wg sync.WaitGroup
	var mu sync.Mutex
	failedObl := map[string]int{} // obligation -> number of failed VCs so far: after the second failure the rest is skipped
	for _, j := range todo {
		wg.Add(1)
		go func(j *VCJob) {
			defer wg.Done()
			sem <- struct{}{}
			defer func() { <-sem }()
			key := ""
			if j.Unit != nil && j.Obl != nil {
				key = j.Unit.Name + "#" + j.Obl.Name
			}
			mu.Lock()
			skip := key != "" && failedObl[key] >= 2
			mu.Unlock()
			if skip {
				j.Status, j.By, j.Output = "skipped", "-", "not run: the obligation already failed on other paths"
				return
			}
			solveOne(j, stage1, stage2, allSolvers)
			if j.Status == "unknown" || j.Status == "timeout" {
				solveSplit(j, stage1, stage2, allSolvers)
			}
			if j.Status != "unsat" && key != "" {
				mu.Lock()
				failedObl[key]++
				mu.Unlock()
			}
		}(j)
	}
	wg.Wait()
	for _, j := range jobs {
		if j.shared != nil {
			j.File, j.Status, j.By, j.Secs, j.Output = j.shared.File, j.shared.Status, j.shared.By, 0, j.shared.Output
		}
	}
}

// modelOf reruns a solver that said sat and evaluates the unit's watch terms (parameters and "watch" clauses) in the model.
func modelOf(j *VCJob) map[string]string {
	txt, err := os.ReadFile(j.File)
	if err != nil || j.Unit == nil || len(j.Unit.Watches) == 0 {
		return nil
	}
	f := strings.TrimSuffix(j.File, ".smt2") + "_model.smt2"
	body := "(set-option :produce-models true)\n" + string(txt)
	out := map[string]string{}
	by := strings.TrimSuffix(j.By, "#7")
	if _, ok := solvers[by]; !ok {
		by = "z3-new"
	}
	// one get-value per term, so that a term the solver cannot evaluate does not spoil the others
	var b strings.Builder
	b.WriteString(body)
	for _, w := range j.Unit.Watches {
		b.WriteString("(get-value (" + w[1] + "))\n")
	}
	os.WriteFile(f, []byte(b.String()), 0644)
	defer os.Remove(f)
	_, o := runSolver(context.Background(), solvers[by], f, 20)
	lines := splitTop(o)
	// first element is the check-sat answer
	k := 0
	for _, l := range lines {
		l = strings.TrimSpace(l)
		if l == "sat" || l == "" {
			continue
		}
		if k < len(j.Unit.Watches) {
			// l is "((term value))"
			val := l
			if strings.HasPrefix(l, "((") && strings.HasSuffix(l, "))") {
				inner := l[2 : len(l)-2]
				t := j.Unit.Watches[k][1]
				if strings.HasPrefix(inner, t) {
					val = strings.TrimSpace(inner[len(t):])
				} else if i := lastTopLevelSpace(inner); i >= 0 {
					val = strings.TrimSpace(inner[i:])
				}
			}
			out[j.Unit.Watches[k][0]] = val
			k++
		}
	}
	return out
}

// splitTop splits solver output into top-level s-expressions / atoms.
func splitTop(s string) []string {
	var out []string
	depth, start := 0, -1
	inStr := false
	for i := 0; i < len(s); i++ {
		c := s[i]
		if inStr {
			if c == '"' {
				inStr = false
			}
			continue
		}
		switch {
		case c == '"':
			inStr = true
			if depth == 0 && start < 0 {
				start = i
			}
		case c == '(':
			if depth == 0 && start < 0 {
				start = i
			}
			depth++
		case c == ')':
			depth--
			if depth == 0 && start >= 0 {
				out = append(out, s[start:i+1])
				start = -1
			}
		case c == '\n' || c == ' ' || c == '\t':
			if depth == 0 && start >= 0 {
				out = append(out, s[start:i])
				start = -1
			}
		default:
			if depth == 0 && start < 0 {
				start = i
			}
		}
	}
	if start >= 0 {
		out = append(out, s[start:])
	}
	return out
}

func lastTopLevelSpace(s string) int {
	depth := 0
	inStr := false
	last := -1
	for i := 0; i < len(s); i++ {
		c := s[i]
		if inStr {
			if c == '"' {
				inStr = false
			}
			continue
		}
		switch c {
		case '"':
			inStr = true
		case '(':
			depth++
		case ')':
			depth--
		case ' ':
			if depth == 0 {
				last = i
			}
		}
	}
	// the value is the last top-level element: find the space before it
	return last
}
