package main

import (
	"fmt"
	"go/types"
	"sort"
	"strings"
)

// Sort mapping Go type -> SMT sort, with on-demand datatype declarations.
type Sorts struct {
	decls   []string          // ordered declarations
	known   map[string]bool   // sort name declared
	structs map[string]*types.Struct
	heaps   map[string]string // heap name -> sort decl (collected on use)
	typeOf  map[string]types.Type // struct sort name -> Go type
}

func NewSorts() *Sorts {
	return &Sorts{known: map[string]bool{}, structs: map[string]*types.Struct{}, heaps: map[string]string{}, typeOf: map[string]types.Type{}}
}

func sanitize(s string) string {
	r := strings.NewReplacer("github.com/wokdav/gopki/generator/", "", "github.com/wokdav/gopki/", "", "/", "_", ".", "_", "*", "P", "[", "L", "]", "R", " ", "", "{", "", "}", "", ";", "_", ",", "_", "(", "", ")", "")
	return r.Replace(s)
}

const modPrefix = "github.com/wokdav/gopki"

func (s *Sorts) SortOf(t types.Type) string {
	switch u := t.(type) {
	case *types.Named:
		if st, ok := u.Underlying().(*types.Struct); ok {
			name := "S_" + sanitize(u.Obj().Pkg().Path()+"."+u.Obj().Name())
			if s.opaque(u, st) {
				name = "O_" + sanitize(u.Obj().Pkg().Path()+"."+u.Obj().Name())
				if !s.known[name] {
					s.known[name] = true
					s.decls = append(s.decls, fmt.Sprintf("(declare-sort %s 0)\n(declare-const zero_%s %s)", name, name, name))
				}
				return name
			}
			s.declStruct(name, st)
			s.typeOf[name] = u
			return name
		}
		return s.SortOf(u.Underlying())
	case *types.Alias:
		return s.SortOf(types.Unalias(u))
	case *types.Struct:
		name := "S_anon_" + sanitize(u.String())
		s.declStruct(name, u)
		return name
	case *types.Basic:
		switch {
		case u.Info()&types.IsBoolean != 0:
			return "Bool"
		case u.Info()&types.IsString != 0:
			return "String"
		case u.Kind() == types.Uint8:
			return "(_ BitVec 8)"
		case u.Info()&types.IsInteger != 0:
			return "Int"
		case u.Kind() == types.UntypedNil:
			return "Int"
		}
		panic("basic " + u.String())
	case *types.Slice:
		return "Slice"
	case *types.Pointer:
		return "Int"
	case *types.Interface:
		return "Any"
	case *types.Array:
		return fmt.Sprintf("(Array Int %s)", s.SortOf(u.Elem()))
	case *types.Map:
		return "Int"
	case *types.Signature:
		return "Fn"
	case *types.Tuple:
		return "TUPLE"
	}
	panic(fmt.Sprintf("sortOf %T %v", t, t))
}

func (s *Sorts) opaque(n *types.Named, st *types.Struct) bool {
	if n.Obj().Pkg() == nil || strings.HasPrefix(n.Obj().Pkg().Path(), modPrefix) {
		return false
	}
	for i := 0; i < st.NumFields(); i++ {
		if !st.Field(i).Exported() {
			return true
		}
	}
	return false
}

func (s *Sorts) declStruct(name string, st *types.Struct) {
	if s.known[name] {
		return
	}
	s.known[name] = true
	s.structs[name] = st
	var fs []string
	for i := 0; i < st.NumFields(); i++ {
		fs = append(fs, fmt.Sprintf("(%s %s)", s.Sel(name, st, i), s.SortOf(st.Field(i).Type())))
	}
	// declare after dependencies (SortOf of fields ran first)
	s.decls = append(s.decls, fmt.Sprintf("(declare-datatypes ((%s 0)) (((mk_%s %s))))", name, name, strings.Join(fs, " ")))
}

func (s *Sorts) Sel(name string, st *types.Struct, i int) string {
	return fmt.Sprintf("%s__%s", name, st.Field(i).Name())
}

func (s *Sorts) Zero(t types.Type) string {
	srt := s.SortOf(t)
	switch {
	case srt == "Bool":
		return "false"
	case srt == "Int":
		return "0"
	case srt == "(_ BitVec 8)":
		return "#x00"
	case srt == "String":
		return "\"\""
	case srt == "Slice":
		return "(mkslice 0 0 0 0)"
	case srt == "Any":
		return "nilAny"
	case srt == "Fn":
		return "nilFn"
	case strings.HasPrefix(srt, "O_"):
		return "zero_" + srt
	case strings.HasPrefix(srt, "S_"):
		st := s.structs[srt]
		var fs []string
		for i := 0; i < st.NumFields(); i++ {
			fs = append(fs, s.Zero(st.Field(i).Type()))
		}
		if len(fs) == 0 {
			return "mk_" + srt
		}
		return fmt.Sprintf("(mk_%s %s)", srt, strings.Join(fs, " "))
	case strings.HasPrefix(srt, "(Array Int"):
		a := t.Underlying().(*types.Array)
		return fmt.Sprintf("((as const %s) %s)", srt, s.Zero(a.Elem()))
	}
	panic("zero " + srt)
}

// heap symbol base names
func (s *Sorts) HeapObj(sort string) string { // H_<sort> : Array Int sort
	n := "H_" + sanitize(sort)
	s.heaps[n] = fmt.Sprintf("(Array Int %s)", sort)
	return n
}
func (s *Sorts) HeapSlice(elem string) string { // HS_<sort> : Array Int (Array Int sort)
	n := "HS_" + sanitize(elem)
	s.heaps[n] = fmt.Sprintf("(Array Int (Array Int %s))", elem)
	return n
}

func (s *Sorts) HeapMap(k, v string) string { // HM_<k>_<v> : Array Int (Array k v)
	n := "HM_" + sanitize(k) + "_" + sanitize(v)
	s.heaps[n] = fmt.Sprintf("(Array Int (Array %s %s))", k, v)
	return n
}

func (s *Sorts) HeapMapDom(k string) string { // HMD_<k> : Array Int (Array k Bool), the key sets of maps keyed by k
	n := "HMD_" + sanitize(k)
	s.heaps[n] = fmt.Sprintf("(Array Int (Array %s Bool))", k)
	return n
}

func (s *Sorts) HeapMapLen() string { // HMLEN : Array Int Int, the number of keys of each map
	s.heaps["HMLEN"] = "(Array Int Int)"
	return "HMLEN"
}

func (s *Sorts) HeapNames() []string {
	var ns []string
	for n := range s.heaps {
		ns = append(ns, n)
	}
	sort.Strings(ns)
	return ns
}
