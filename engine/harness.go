package main

import (
	"bytes"
	"context"
	"encoding/json"
	"fmt"
	"os"
	"os/exec"
	"path/filepath"
	"strings"
	"syscall"
	"time"
)

// Harness files live in /verif/harness/<package dir relative to the repository>/*_test.go and are injected into
// the real package with `go test -overlay` (nothing is written to /repo). They replay counterexamples and run the
// bounded stand-ins. Protocol (stdout of the test):
//   VERIF-REPLAY: confirmed <text>      the input violates the property's oracle on the real code
//   VERIF-REPLAY: not-reproduced <text>
//   VERIF-BOUNDED: ok cases=<n> nontrivial=<m>
//   VERIF-BOUNDED: violation <input>
type HarnessResult struct {
	Ran    bool   `json:"ran"`
	Status string `json:"status"` // confirmed | not-reproduced | ok | violation | error
	Text   string `json:"text"`
	Cases  int    `json:"cases,omitempty"`
	Cmd    string `json:"cmd,omitempty"`
}

func runHarness(opt Options, pkgRel, test string, env map[string]string, timeout time.Duration) HarnessResult {
	hdir := filepath.Join(opt.VerifDir, "harness", pkgRel)
	ents, err := os.ReadDir(hdir)
	if err != nil {
		return HarnessResult{Status: "error", Text: "no harness directory " + hdir}
	}
	repl := map[string]string{}
	for _, e := range ents {
		if strings.HasSuffix(e.Name(), ".go") {
			repl[filepath.Join(opt.RepoDir, pkgRel, e.Name())] = filepath.Join(hdir, e.Name())
		}
	}
	ov, _ := json.Marshal(map[string]any{"Replace": repl})
	tmp, err := os.CreateTemp("", "verif-overlay-*.json")
	if err != nil {
		return HarnessResult{Status: "error", Text: err.Error()}
	}
	defer os.Remove(tmp.Name())
	tmp.Write(ov)
	tmp.Close()
	args := []string{"test", "-overlay", tmp.Name(), "-vet=off", "-count=1", "-timeout", fmt.Sprint(timeout), "-run", "^" + test + "$", "-v", "./" + pkgRel}
	ctx, cancel := context.WithTimeout(context.Background(), timeout+30*time.Second)
	defer cancel()
	cmd := exec.CommandContext(ctx, "go", args...)
	cmd.Dir = opt.RepoDir
	cmd.SysProcAttr = &syscall.SysProcAttr{Setpgid: true}
	cmd.Cancel = func() error { return syscall.Kill(-cmd.Process.Pid, syscall.SIGKILL) }
	cmd.Env = append(os.Environ(), "GOFLAGS=-mod=mod", "GOPROXY=off", "GOSUMDB=off", "GOTOOLCHAIN=local", fmt.Sprintf("VERIF_SEED=%d", opt.Seed), "VERIF_TIER="+opt.Tier)
	for k, v := range env {
		cmd.Env = append(cmd.Env, k+"="+v)
	}
	var buf bytes.Buffer
	cmd.Stdout = &buf
	cmd.Stderr = &buf
	cmd.Run()
	out := buf.String()
	res := HarnessResult{Ran: true, Status: "error", Text: lastLines(out, 12), Cmd: "go " + strings.Join(args, " ")}
	for _, l := range strings.Split(out, "\n") {
		l = strings.TrimSpace(l)
		if r, ok := strings.CutPrefix(l, "VERIF-REPLAY: "); ok {
			st, txt, _ := strings.Cut(r, " ")
			res.Status, res.Text = st, txt
		}
		if r, ok := strings.CutPrefix(l, "VERIF-BOUNDED: "); ok {
			st, txt, _ := strings.Cut(r, " ")
			if res.Status == "violation" {
				continue // keep the first violation
			}
			res.Status, res.Text = st, txt
			fmt.Sscanf(txt, "cases=%d", &res.Cases)
		}
	}
	return res
}

func lastLines(s string, n int) string {
	ls := strings.Split(strings.TrimSpace(s), "\n")
	if len(ls) > n {
		ls = ls[len(ls)-n:]
	}
	return strings.Join(ls, "\n")
}

// pkgRelOf maps a contract's package path to the directory below the repository root.
func pkgRelOf(modPath, pkg string) string {
	r := strings.TrimPrefix(pkg, modPath)
	return strings.TrimPrefix(r, "/")
}
