package main

import (
	"bufio"
	"fmt"
	"os"
	"path/filepath"
	"regexp"
	"sort"
	"strconv"
	"strings"
)

// Clause is one requires/ensures/invariant/atcall/assigns expression of a contract.
type Clause struct {
	Src   string
	E     Expr
	Props []string // properties this clause is reported under (empty: every property of the unit)
	Uses  []string // preludes a box fact needs
	Line  string   // file:line of the clause
}

type FuncContract struct {
	Name     string   // SSA function string, "invoke:Iface.Method" / "invoke:Method", "new:T", "convert:D<-S", or "<pkg>.tables"
	Params   []string // parameter names (trusted/interface contracts; receivers first); filled from the SSA function for /repo contracts
	Returns  []string
	Requires []Clause
	Abstracts []Clause // clauses assumed at call sites only (never proved for the function): they name the function's result as an
	                   // uninterpreted function of its arguments for callers' specs; every use is listed as an assumption
	GhostRets []GhostRet // ghost results: a value determined inside the function (e.g. the state at loop entry), an opaque
	                     // fresh constant for callers
	Watch    []Clause // expressions over the entry state evaluated in a counterexample (make models readable, feed replay)
	Assume   []Clause // facts about package variables of dependencies, assumed at entry and listed in evidence
	Given    []Clause // facts about package tables, assumed at entry and proved by the package's "tables" unit (not callers' obligations)
	Ensures  []Clause
	Loops    map[int][]Clause
	UnrollLoops   map[int]bool   // loop ordinal -> the loop is executed iteration by iteration, not cut: every evaluation of its condition must fold to a constant (reflection over a statically known struct type); a visit budget stops anything else
	AbstractLoops map[int]string // loop ordinal -> reason: the body is not executed; its clauses are assumed at the exit (listed in evidence, covered by a bounded stand-in)
	Inline   []string
	Trusted  bool
	Havoc    []string            // heaps havoced by a call
	Updates  []Update            // model-field updates performed by a call
	Modifies []string            // heaps exempt from the frame obligation of the verified function (havoced at call sites)
	Assigns  []Clause            // locations a call may change (everything else in those heaps is preserved)
	NoReturn bool                // the call never returns (os.Exit)
	AtCall   map[string][]Clause // assertions that must hold when the named callee is called
	Props    []string            // properties this function's obligations are reported under
	Uses     []string            // prelude files needed by this contract
	Pure     bool                // trusted: results are a function of the arguments (same args, same results)
	File     string              // where the contract was read from
	Pkg      string              // package path for contracts read from /repo
	Lenient  bool                // calls without contract give fresh results and are listed (safety sweeps)
	FrameProps []string          // properties the frame obligations are reported under
	NoFrame  bool                // no default frame obligation (function is allowed to modify anything it reaches)
	NoSliceFacts bool            // no automatic "slice-typed loop variables are fresh accumulators" invariants
	Bounded  string              // name of the bounded stand-in harness test for this function, if any
	Unverified string            // non-empty: the body is not verified (reason); the contract is an assumption, listed in evidence
	Replay   string              // name of the harness test that replays a counterexample of this function
}

type GhostRet struct {
	Name, Sort string
	Cl         Clause
}

type Update struct {
	Field    string
	Key, Val Expr
}

// Lemma is a goal over spec functions and contract sorts only (no code).
type Lemma struct {
	Name     string
	Props    []string
	Uses     []string
	UseTypes []string
	Goal     string // SMT formula
	File     string
	Pkg      string
}

// ShapeSpec pins the declaration of a struct type whose encoding is driven by reflection over its fields and tags
// (encoding/asn1, encoding/json): field order and the option sets of the tags, taken from the RFC/ASN.1 module.
type ShapeSpec struct {
	Type  string // package-qualified type name
	Props []string
	File  string
	Pkg   string
	Lines []ShapeLine
}

type ShapeLine struct {
	Kind  string // asn1 | json | order
	Field string
	Want  string
	Props []string
}

type ContractSet struct {
	Shapes      []*ShapeSpec
	ModelFields map[string]string // name -> "KeySort\x00ValSort"
	ModelFieldUses map[string][]string // name -> preludes that declare the sorts it needs
	WorldFields map[string]bool // model fields that are world state: framed like heaps (unchanged unless listed in modifies)
	Funcs       map[string]*FuncContract
	Asserts     []AssertLine // raw SMT assertions placed after all declarations
	Lemmas      []*Lemma
	Files       []string
	BoxFacts    map[string][]Clause // Go type -> facts assumed when a value of that type is boxed into an interface (vars: box, val);
	                                // each restates the verified contract of the type's method through the interface contract's naming function
	GlobalVals  map[string]string // "pkg/path.Name" -> SMT term: assumed value of a package-level variable of a dependency
}

type AssertLine struct {
	Text string
	Uses []string // file-level preludes of the file the assert came from: only emitted when all are loaded
}

var reFunc = regexp.MustCompile(`^(trusted\s+)?func\s+(\S+)(?:\s+params\s+\(([^)]*)\))?(?:\s+returns\s+\(([^)]*)\))?\s*$`)

func splitNames(s string) []string {
	var out []string
	for _, p := range strings.FieldsFunc(s, func(r rune) bool { return r == ',' || r == ' ' }) {
		if p = strings.TrimSpace(p); p != "" {
			out = append(out, p)
		}
	}
	return out
}

func NewContractSet() *ContractSet {
	return &ContractSet{Funcs: map[string]*FuncContract{}, ModelFields: map[string]string{}, ModelFieldUses: map[string][]string{}, WorldFields: map[string]bool{}, BoxFacts: map[string][]Clause{}, GlobalVals: map[string]string{}}
}

// qualify turns a short function name used in a /repo contract file into the SSA name:
// Merge -> pkg.Merge, (*T).M -> (*pkg.T).M, (T).M -> (pkg.T).M, init#1$1 -> pkg.init#1$1.
func qualify(pkg, name string) string {
	if pkg == "" || strings.Contains(name, "/") || strings.HasPrefix(name, "invoke:") || strings.HasPrefix(name, "new:") || strings.HasPrefix(name, "convert:") {
		return name
	}
	if strings.HasPrefix(name, "(*") {
		return "(*" + pkg + "." + name[2:]
	}
	if strings.HasPrefix(name, "(") {
		return "(" + pkg + "." + name[1:]
	}
	return pkg + "." + name
}

// parseTags strips a leading "@C01,C02" from a clause.
func parseTags(rest string) ([]string, string) {
	if !strings.HasPrefix(rest, "@") {
		return nil, rest
	}
	tag, r, _ := strings.Cut(rest[1:], " ")
	return strings.Split(tag, ","), strings.TrimSpace(r)
}

// LoadLines parses contract directives. pkg is the package path for files that live in /repo ("" for trusted files).
func (cs *ContractSet) LoadLines(path string, lines []string, lineNos []int, pkg string) error {
	var cur *FuncContract
	var curLemma *Lemma
	var curShape *ShapeSpec
	var filePreludes []string
	loop := 0
	lets := map[string]Expr{}
	fileLets := map[string]Expr{} // let lines before the first func: available in every contract of the file
	parse := func(src string) (Expr, error) {
		e, err := ParseExpr(src)
		if err != nil {
			return nil, err
		}
		return substIdents(e, lets), nil
	}
	// filelet abbreviations are visible in the whole file, wherever they are written
	for _, raw := range lines {
		line := strings.TrimSpace(raw)
		if r, ok := strings.CutPrefix(line, "filelet "); ok {
			name, ex, ok := strings.Cut(r, "=")
			if !ok {
				continue
			}
			pe, err := ParseExpr(strings.TrimSpace(ex))
			if err != nil {
				return fmt.Errorf("%s: filelet %s: %v", path, name, err)
			}
			fileLets[strings.TrimSpace(name)] = substIdents(pe, fileLets)
		}
	}
	for n, x := range fileLets {
		lets[n] = x
	}
	for k, raw := range lines {
		ln := lineNos[k]
		line := strings.TrimSpace(raw)
		if line == "" || strings.HasPrefix(line, "//") {
			continue
		}
		where := fmt.Sprintf("%s:%d", path, ln)
		fail := func(e error) error { return fmt.Errorf("%s: %v", where, e) }
		kw, rest, _ := strings.Cut(line, " ")
		rest = strings.TrimSpace(rest)
		needCur := func() error {
			if cur == nil {
				return fail(fmt.Errorf("%q outside a func contract", kw))
			}
			return nil
		}
		switch {
		case kw == "prelude":
			filePreludes = append(filePreludes, splitNames(rest)...)
		case kw == "type": // type <Name> @Cxx,Cyy : a shape specification of a struct declaration
			name, r, _ := strings.Cut(rest, " ")
			tags, _ := parseTags(strings.TrimSpace(r))
			full := name
			if pkg != "" && !strings.Contains(name, "/") {
				full = pkg + "." + name
			}
			curShape = &ShapeSpec{Type: full, Props: tags, File: path, Pkg: pkg}
			cs.Shapes = append(cs.Shapes, curShape)
			cur, curLemma = nil, nil
		case (kw == "asn1" || kw == "json" || kw == "order") && curShape != nil && cur == nil && curLemma == nil:
			if kw == "order" {
				curShape.Lines = append(curShape.Lines, ShapeLine{Kind: "order", Want: strings.Join(strings.Fields(rest), " ")})
			} else {
				f, w, _ := strings.Cut(rest, " ")
				curShape.Lines = append(curShape.Lines, ShapeLine{Kind: kw, Field: f, Want: strings.Trim(strings.TrimSpace(w), "\"")})
			}
		case kw == "props" && curShape != nil && cur == nil && curLemma == nil:
			curShape.Props = append(curShape.Props, splitNames(rest)...)
		case kw == "lemma":
			curShape = nil
			name, r, _ := strings.Cut(rest, " ")
			tags, _ := parseTags(strings.TrimSpace(r))
			curLemma = &Lemma{Name: name, Props: tags, File: path, Pkg: pkg, Uses: append([]string{}, filePreludes...)}
			cs.Lemmas = append(cs.Lemmas, curLemma)
			cur = nil
		case kw == "goal":
			if curLemma == nil {
				return fail(fmt.Errorf("goal outside a lemma"))
			}
			if curLemma.Goal != "" {
				curLemma.Goal += " "
			}
			curLemma.Goal += rest
		case kw == "usetype":
			if curLemma == nil {
				return fail(fmt.Errorf("usetype outside a lemma"))
			}
			curLemma.UseTypes = append(curLemma.UseTypes, rest)
		case kw == "boxfact": // boxfact <Type> <expr over box, val>
			tn, ex, _ := strings.Cut(rest, " ")
			pe, err := parse(strings.TrimSpace(ex))
			if err != nil {
				return fail(err)
			}
			full := tn
			if pkg != "" && !strings.Contains(tn, "/") {
				full = pkg + "." + tn
			}
			cs.BoxFacts[full] = append(cs.BoxFacts[full], Clause{Src: ex, E: pe, Line: where, Uses: append([]string{}, filePreludes...)})
		case kw == "globalvalue": // globalvalue pkg/path.Name <smt term>
			name, term, _ := strings.Cut(rest, " ")
			cs.GlobalVals[name] = strings.TrimSpace(term)
		case kw == "assert":
			cs.Asserts = append(cs.Asserts, AssertLine{rest, append([]string{}, filePreludes...)})
		case kw == "func" || kw == "trusted":
			curShape = nil
			m := reFunc.FindStringSubmatch(line)
			if m == nil {
				return fail(fmt.Errorf("bad func line"))
			}
			cur = &FuncContract{Name: qualify(pkg, m[2]), Trusted: m[1] != "", Params: splitNames(m[3]), Returns: splitNames(m[4]), Loops: map[int][]Clause{}, File: path, Pkg: pkg}
			cur.Uses = append(cur.Uses, filePreludes...)
			if old, dup := cs.Funcs[cur.Name]; dup {
				return fail(fmt.Errorf("duplicate contract for %s (first in %s)", cur.Name, old.File))
			}
			cs.Funcs[cur.Name] = cur
			curLemma = nil
			loop = 0
			lets = map[string]Expr{}
			for n, x := range fileLets {
				lets[n] = x
			}
		case kw == "ghostret": // ghostret NAME SORT = expr
			if err := needCur(); err != nil {
				return err
			}
			lhs, ex, ok := strings.Cut(rest, "=")
			if !ok {
				return fail(fmt.Errorf("ghostret NAME SORT = expr"))
			}
			name, srt, _ := strings.Cut(strings.TrimSpace(lhs), " ")
			pe, err := parse(strings.TrimSpace(ex))
			if err != nil {
				return fail(err)
			}
			cur.GhostRets = append(cur.GhostRets, GhostRet{Name: name, Sort: strings.TrimSpace(srt), Cl: Clause{Src: strings.TrimSpace(ex), E: pe, Line: where}})
		case kw == "let": // let name = expr : abbreviation usable in the following clauses of this contract
			name, ex, ok := strings.Cut(rest, "=")
			if !ok {
				return fail(fmt.Errorf("let name = expr"))
			}
			pe, err := parse(strings.TrimSpace(ex))
			if err != nil {
				return fail(err)
			}
			lets[strings.TrimSpace(name)] = pe
			if cur == nil && curLemma == nil {
				fileLets[strings.TrimSpace(name)] = pe
			}
		case kw == "filelet": // filelet name = expr : abbreviation for every following contract of this file
			name, ex, ok := strings.Cut(rest, "=")
			if !ok {
				return fail(fmt.Errorf("filelet name = expr"))
			}
			pe, err := parse(strings.TrimSpace(ex))
			if err != nil {
				return fail(err)
			}
			fileLets[strings.TrimSpace(name)] = pe
			lets[strings.TrimSpace(name)] = pe
		case kw == "props":
			if curLemma != nil {
				curLemma.Props = append(curLemma.Props, splitNames(rest)...)
				continue
			}
			if err := needCur(); err != nil {
				return err
			}
			cur.Props = append(cur.Props, splitNames(rest)...)
		case kw == "uses":
			if curLemma != nil {
				curLemma.Uses = append(curLemma.Uses, splitNames(rest)...)
				continue
			}
			if err := needCur(); err != nil {
				return err
			}
			cur.Uses = append(cur.Uses, splitNames(rest)...)
		case kw == "pure":
			cur.Pure = true
		case kw == "lenient":
			cur.Lenient = true
		case kw == "noframe":
			cur.NoFrame = true
		case kw == "noslicefacts":
			cur.NoSliceFacts = true
		case kw == "bounded":
			cur.Bounded = rest
		case kw == "replay":
			cur.Replay = rest
		case kw == "unverified":
			cur.Unverified = rest
		case kw == "frame": // frame @C03,C08 : properties the frame obligations are reported under
			tags, _ := parseTags(rest)
			cur.FrameProps = tags
		case kw == "inline":
			if err := needCur(); err != nil {
				return err
			}
			for _, n := range splitNames(rest) {
				cur.Inline = append(cur.Inline, qualify(pkg, n))
			}
		case kw == "modelfield": // modelfield Name KeySort ValSort
			if r, ok := strings.CutSuffix(rest, " world"); ok {
				rest = strings.TrimSpace(r)
				cs.WorldFields[strings.SplitN(rest, " ", 2)[0]] = true
			}
			parts := strings.SplitN(rest, " ", 3)
			if len(parts) != 3 {
				return fail(fmt.Errorf("modelfield Name KeySort ValSort [world]"))
			}
			v := parts[1] + "\x00" + strings.TrimSpace(parts[2])
			if old, ok := cs.ModelFields[parts[0]]; ok && old != v {
				return fail(fmt.Errorf("model field %s redeclared with a different sort", parts[0]))
			}
			cs.ModelFields[parts[0]] = v
			cs.ModelFieldUses[parts[0]] = append([]string{}, filePreludes...)
		case kw == "update": // update Field(key) := value   (value is evaluated before the call)
			if err := needCur(); err != nil {
				return err
			}
			lhs, rhs, _ := strings.Cut(rest, ":=")
			le, err := parse(strings.TrimSpace(lhs))
			if err != nil {
				return fail(err)
			}
			re, err := parse(strings.TrimSpace(rhs))
			if err != nil {
				return fail(err)
			}
			lc, ok := le.(Call)
			if !ok || len(lc.Args) != 1 {
				return fail(fmt.Errorf("update Field(key) := value"))
			}
			cur.Updates = append(cur.Updates, Update{lc.Fun, lc.Args[0], re})
		case kw == "assigns":
			if err := needCur(); err != nil {
				return err
			}
			for _, part := range strings.Split(rest, ";") {
				pe, err := parse(strings.TrimSpace(part))
				if err != nil {
					return fail(err)
				}
				cur.Assigns = append(cur.Assigns, Clause{Src: strings.TrimSpace(part), E: pe, Line: where})
			}
		case kw == "noreturn":
			cur.NoReturn = true
		case kw == "atcall": // atcall [@Cxx] <callee> <expr>
			if err := needCur(); err != nil {
				return err
			}
			tags, r := parseTags(rest)
			callee, ex, _ := strings.Cut(r, " ")
			callee = (&CCtx{}).calleeKey(qualify(pkgOfCallee(pkg, callee), callee)) // "gopki/..." is the module path
			pe, err := parse(strings.TrimSpace(ex))
			if err != nil {
				return fail(err)
			}
			if cur.AtCall == nil {
				cur.AtCall = map[string][]Clause{}
			}
			cur.AtCall[callee] = append(cur.AtCall[callee], Clause{Src: ex, E: pe, Props: tags, Line: where})
		case kw == "modifies":
			cur.Modifies = append(cur.Modifies, splitNames(rest)...)
		case kw == "havoc":
			cur.Havoc = append(cur.Havoc, splitNames(rest)...)
		case kw == "loop":
			var err error
			num, more, _ := strings.Cut(rest, " ")
			loop, err = strconv.Atoi(num)
			if err != nil {
				return fail(err)
			}
			if r, ok := strings.CutPrefix(strings.TrimSpace(more), "abstract"); ok {
				if cur.AbstractLoops == nil {
					cur.AbstractLoops = map[int]string{}
				}
				cur.AbstractLoops[loop] = strings.TrimSpace(r)
			}
			if strings.TrimSpace(more) == "unroll" {
				if cur.UnrollLoops == nil {
					cur.UnrollLoops = map[int]bool{}
				}
				cur.UnrollLoops[loop] = true
			}
		case kw == "requires" || kw == "ensures" || kw == "invariant" || kw == "given" || kw == "watch" || kw == "abstracts" || kw == "assume":
			if err := needCur(); err != nil {
				return err
			}
			tags, r := parseTags(rest)
			e, err := parse(r)
			if err != nil {
				return fail(err)
			}
			cl := Clause{Src: r, E: e, Props: tags, Line: where}
			switch kw {
			case "requires":
				cur.Requires = append(cur.Requires, cl)
			case "given":
				cur.Given = append(cur.Given, cl)
			case "assume":
				cur.Assume = append(cur.Assume, cl)
			case "watch":
				cur.Watch = append(cur.Watch, cl)
			case "abstracts":
				cur.Abstracts = append(cur.Abstracts, cl)
			case "ensures":
				cur.Ensures = append(cur.Ensures, cl)
			default:
				cur.Loops[loop] = append(cur.Loops[loop], cl)
			}
		default:
			return fail(fmt.Errorf("unknown directive %q", kw))
		}
	}
	cs.Files = append(cs.Files, path)
	return nil
}

// callee names in atcall lines are written in full unless they have no slash and no dot-qualified package
func pkgOfCallee(pkg, callee string) string {
	if strings.Contains(callee, "/") || strings.Contains(callee, ":") {
		return ""
	}
	// "os.Exit", "fmt.Println": standard library package-qualified names are left alone
	if i := strings.Index(callee, "."); i > 0 && !strings.HasPrefix(callee, "(") {
		return ""
	}
	return pkg
}

// LoadTrustedFile reads a /verif/trusted/*.contracts file.
func (cs *ContractSet) LoadTrustedFile(path string) error {
	f, err := os.Open(path)
	if err != nil {
		return err
	}
	defer f.Close()
	sc := bufio.NewScanner(f)
	sc.Buffer(make([]byte, 1<<20), 1<<20)
	var lines []string
	var nos []int
	n := 0
	for sc.Scan() {
		n++
		lines = append(lines, sc.Text())
		nos = append(nos, n)
	}
	if err := sc.Err(); err != nil {
		return err
	}
	return cs.LoadLines(path, lines, nos, "")
}

// LoadRepoFile reads the //@ lines of a contracts_verif.go file in /repo. A line ending in "\" continues on the next //@ line.
func (cs *ContractSet) LoadRepoFile(path, pkg string) error {
	f, err := os.Open(path)
	if err != nil {
		return err
	}
	defer f.Close()
	sc := bufio.NewScanner(f)
	sc.Buffer(make([]byte, 1<<20), 1<<20)
	var lines []string
	var nos []int
	n := 0
	cont := false
	for sc.Scan() {
		n++
		t := strings.TrimSpace(sc.Text())
		if !strings.HasPrefix(t, "//@") {
			cont = false
			continue
		}
		t = strings.TrimPrefix(t, "//@")
		more := strings.HasSuffix(t, "\\")
		t = strings.TrimSuffix(t, "\\")
		if cont {
			lines[len(lines)-1] += " " + strings.TrimSpace(t)
		} else {
			lines = append(lines, t)
			nos = append(nos, n)
		}
		cont = more
	}
	if err := sc.Err(); err != nil {
		return err
	}
	return cs.LoadLines(path, lines, nos, pkg)
}

// LoadAll reads every trusted contract file and every contracts_verif.go under the repository.
func LoadAllContracts(verifDir, repoDir, modPath string) (*ContractSet, error) {
	cs := NewContractSet()
	tf, _ := filepath.Glob(filepath.Join(verifDir, "trusted", "*.contracts"))
	sort.Strings(tf)
	for _, p := range tf {
		if err := cs.LoadTrustedFile(p); err != nil {
			return nil, err
		}
	}
	var repoFiles []string
	filepath.Walk(repoDir, func(p string, info os.FileInfo, err error) error {
		if err != nil {
			return nil
		}
		if info.IsDir() && (info.Name() == ".git" || info.Name() == "vendor") {
			return filepath.SkipDir
		}
		if !info.IsDir() && info.Name() == "contracts_verif.go" {
			repoFiles = append(repoFiles, p)
		}
		return nil
	})
	sort.Strings(repoFiles)
	for _, p := range repoFiles {
		rel, _ := filepath.Rel(repoDir, filepath.Dir(p))
		pkg := modPath
		if rel != "." {
			pkg = modPath + "/" + filepath.ToSlash(rel)
		}
		if err := cs.LoadRepoFile(p, pkg); err != nil {
			return nil, err
		}
	}
	// a clause tagged with a property its unit's props line does not list would never be checked (units are selected
	// by their props): the unit serves every property one of its clauses is tagged with
	for _, fc := range cs.Funcs {
		if fc.Trusted {
			continue
		}
		props := map[string]bool{}
		for _, p := range fc.Props {
			props[p] = true
		}
		add := func(cls []Clause) {
			for _, cl := range cls {
				for _, t := range cl.Props {
					if !props[t] {
						props[t] = true
						fc.Props = append(fc.Props, t)
					}
				}
			}
		}
		add(fc.Ensures)
		add(fc.Requires)
		for _, cls := range fc.Loops {
			add(cls)
		}
		for _, cls := range fc.AtCall {
			add(cls)
		}
	}
	return cs, nil
}

// Prelude files: SMT-LIB text with optional header comments
//   ; requires other.smt2      (load that file first)
//   ; usetype  pkg/path.Type   (make sure the sort of this Go type is declared before the text)
type Prelude struct {
	Name     string
	Text     string
	Requires []string
	UseTypes []string
	UseHeaps []string
}

func LoadPrelude(verifDir, name string) (*Prelude, error) {
	b, err := os.ReadFile(filepath.Join(verifDir, "specs", name))
	if err != nil {
		return nil, err
	}
	p := &Prelude{Name: name, Text: string(b)}
	for _, l := range strings.Split(p.Text, "\n") {
		l = strings.TrimSpace(l)
		if r, ok := strings.CutPrefix(l, "; requires "); ok {
			p.Requires = append(p.Requires, splitNames(r)...)
		}
		if r, ok := strings.CutPrefix(l, "; usetype "); ok {
			p.UseTypes = append(p.UseTypes, strings.TrimSpace(r))
		}
		if r, ok := strings.CutPrefix(l, "; useheap "); ok {
			p.UseHeaps = append(p.UseHeaps, strings.TrimSpace(r))
		}
	}
	return p, nil
}

// ResolvePreludes returns the named preludes and everything they require, dependencies first, each once.
func ResolvePreludes(verifDir string, names []string) ([]*Prelude, error) {
	var out []*Prelude
	seen := map[string]bool{}
	var visit func(n string) error
	visit = func(n string) error {
		if seen[n] {
			return nil
		}
		seen[n] = true
		p, err := LoadPrelude(verifDir, n)
		if err != nil {
			return err
		}
		for _, r := range p.Requires {
			if err := visit(r); err != nil {
				return err
			}
		}
		out = append(out, p)
		return nil
	}
	for _, n := range names {
		if err := visit(n); err != nil {
			return nil, err
		}
	}
	return out, nil
}
