package main

import (
	"fmt"
	"strings"
	"unicode"
)

// ---- AST of the contract expression language ----
type Expr interface{}
type (
	Ident   struct{ Name string }
	IntLit  struct{ V string }
	StrLit  struct{ V string }
	BoolLit struct{ V bool }
	NilLit  struct{}
	Unary   struct {
		Op string
		X  Expr
	}
	Binary struct {
		Op   string
		X, Y Expr
	}
	Sel struct {
		X    Expr
		Name string
	}
	Index struct{ X, I Expr }
	Call  struct {
		Fun  string
		Args []Expr
	}
	Forall struct {
		Var          string
		Lo, Hi, Body Expr
		Sort         string // non-empty: unbounded quantification over this SMT sort
		Exists       bool
		Expand       bool // "forall k in [a,b) expand :: body" with literal bounds: a finite conjunction
		Trig         Expr // optional instantiation pattern: "forall k in [a,b) trigger f(k) :: body"
	}
	Ite struct{ C, A, B Expr }
)

type tok struct {
	k string // id int str op eof
	v string
}

func lex(src string) ([]tok, error) {
	var out []tok
	i := 0
	ops := []string{"==>", "<==>", "::", "==", "!=", "<=", ">=", "&&", "||", "+", "-", "*", "/", "%", "<", ">", "!", "(", ")", "[", "]", ",", ".", "&", "|", "#"}
	for i < len(src) {
		c := rune(src[i])
		switch {
		case unicode.IsSpace(c):
			i++
		case unicode.IsLetter(c) || c == '_':
			j := i
			for j < len(src) && (unicode.IsLetter(rune(src[j])) || unicode.IsDigit(rune(src[j])) || src[j] == '_') {
				j++
			}
			out = append(out, tok{"id", src[i:j]})
			i = j
		case unicode.IsDigit(c):
			j := i
			for j < len(src) && (unicode.IsDigit(rune(src[j])) || src[j] == 'x' || (src[j] >= 'a' && src[j] <= 'f') || (src[j] >= 'A' && src[j] <= 'F')) {
				j++
			}
			out = append(out, tok{"int", src[i:j]})
			i = j
		case c == '"':
			j := i + 1
			for j < len(src) && src[j] != '"' {
				j++
			}
			if j >= len(src) {
				return nil, fmt.Errorf("unterminated string")
			}
			out = append(out, tok{"str", src[i+1 : j]})
			i = j + 1
		default:
			matched := false
			for _, o := range ops {
				if strings.HasPrefix(src[i:], o) {
					out = append(out, tok{"op", o})
					i += len(o)
					matched = true
					break
				}
			}
			if !matched {
				return nil, fmt.Errorf("unexpected character %q in %q", c, src)
			}
		}
	}
	out = append(out, tok{"eof", ""})
	return out, nil
}

type parser struct {
	t []tok
	p int
}

func ParseExpr(src string) (e Expr, err error) {
	ts, err := lex(src)
	if err != nil {
		return nil, err
	}
	defer func() {
		if r := recover(); r != nil {
			err = fmt.Errorf("parse %q: %v", src, r)
		}
	}()
	p := &parser{t: ts}
	e = p.iff()
	if p.peek().k != "eof" {
		panic("trailing input at " + p.peek().v)
	}
	return e, nil
}

func (p *parser) peek() tok { return p.t[p.p] }
func (p *parser) next() tok { t := p.t[p.p]; p.p++; return t }
func (p *parser) isOp(v string) bool {
	return p.peek().k == "op" && p.peek().v == v
}
func (p *parser) isKw(v string) bool { return p.peek().k == "id" && p.peek().v == v }
func (p *parser) expectOp(v string) {
	if !p.isOp(v) {
		panic("expected " + v + " got " + p.peek().v)
	}
	p.next()
}

func (p *parser) iff() Expr {
	x := p.implies()
	for p.isOp("<==>") {
		p.next()
		x = Binary{"<==>", x, p.implies()}
	}
	return x
}
func (p *parser) implies() Expr {
	x := p.or()
	if p.isOp("==>") {
		p.next()
		return Binary{"==>", x, p.implies()}
	}
	return x
}
func (p *parser) or() Expr {
	x := p.and()
	for p.isOp("||") {
		p.next()
		x = Binary{"||", x, p.and()}
	}
	return x
}
func (p *parser) and() Expr {
	x := p.cmp()
	for p.isOp("&&") {
		p.next()
		x = Binary{"&&", x, p.cmp()}
	}
	return x
}
func (p *parser) cmp() Expr {
	x := p.add()
	for _, o := range []string{"==", "!=", "<=", ">=", "<", ">"} {
		if p.isOp(o) {
			p.next()
			return Binary{o, x, p.add()}
		}
	}
	return x
}
func (p *parser) add() Expr {
	x := p.mul()
	for p.isOp("+") || p.isOp("-") || p.isOp("|") {
		o := p.next().v
		x = Binary{o, x, p.mul()}
	}
	return x
}
func (p *parser) mul() Expr {
	x := p.unary()
	for p.isOp("*") || p.isOp("/") || p.isOp("%") || p.isOp("&") {
		o := p.next().v
		x = Binary{o, x, p.unary()}
	}
	return x
}
func (p *parser) unary() Expr {
	if p.isOp("!") || p.isOp("-") {
		o := p.next().v
		return Unary{o, p.unary()}
	}
	return p.postfix()
}
func (p *parser) postfix() Expr {
	x := p.primary()
	for {
		switch {
		case p.isOp("."):
			p.next()
			n := p.next()
			if n.k != "id" {
				panic("field name expected")
			}
			if id, ok := x.(Ident); ok && p.isOp("(") { // qualified function: spec.f(...)
				x = p.callArgs(id.Name + "." + n.v)
				continue
			}
			x = Sel{x, n.v}
		case p.isOp("["):
			p.next()
			i := p.iff()
			p.expectOp("]")
			x = Index{x, i}
		default:
			return x
		}
	}
}
func (p *parser) callArgs(name string) Expr {
	p.expectOp("(")
	var args []Expr
	for !p.isOp(")") {
		args = append(args, p.iff())
		if p.isOp(",") {
			p.next()
		}
	}
	p.expectOp(")")
	return Call{name, args}
}
func (p *parser) primary() Expr {
	t := p.next()
	switch t.k {
	case "int":
		return IntLit{t.v}
	case "str":
		return StrLit{t.v}
	case "op":
		if t.v == "(" {
			e := p.iff()
			p.expectOp(")")
			return e
		}
		if t.v == "#" { // #name: raw SMT symbol (spec constant)
			n := p.next()
			return Call{"#" + n.v, nil}
		}
	case "id":
		switch t.v {
		case "true":
			return BoolLit{true}
		case "false":
			return BoolLit{false}
		case "nil":
			return NilLit{}
		case "forall", "exists":
			ex := t.v == "exists"
			v := p.next().v
			if p.isKw("string") {
				p.next()
				p.expectOp("::")
				return Forall{Var: v, Body: p.iff(), Sort: "String", Exists: ex}
			}
			if p.isKw("int") {
				p.next()
				p.expectOp("::")
				return Forall{Var: v, Body: p.iff(), Sort: "Int", Exists: ex}
			}
			if !p.isKw("in") {
				panic("forall: 'in' expected")
			}
			p.next()
			p.expectOp("[")
			lo := p.iff()
			p.expectOp(",")
			hi := p.iff()
			p.expectOp(")")
			var trig Expr
			expand := false
			if p.isKw("expand") {
				p.next()
				expand = true
			}
			if p.isKw("trigger") {
				p.next()
				trig = p.iff()
			}
			p.expectOp("::")
			return Forall{Var: v, Lo: lo, Hi: hi, Body: p.iff(), Exists: ex, Trig: trig, Expand: expand}
		case "if":
			c := p.iff()
			if !p.isKw("then") {
				panic("then expected")
			}
			p.next()
			a := p.iff()
			if !p.isKw("else") {
				panic("else expected")
			}
			p.next()
			return Ite{c, a, p.iff()}
		}
		if p.isOp("(") {
			return p.callArgs(t.v)
		}
		return Ident{t.v}
	}
	panic("unexpected token " + t.v)
}

// substIdents replaces identifiers by expressions (the "let" abbreviations of a contract).
func substIdents(x Expr, m map[string]Expr) Expr {
	if len(m) == 0 {
		return x
	}
	switch n := x.(type) {
	case Ident:
		if r, ok := m[n.Name]; ok {
			return r
		}
		return n
	case Unary:
		return Unary{n.Op, substIdents(n.X, m)}
	case Binary:
		return Binary{n.Op, substIdents(n.X, m), substIdents(n.Y, m)}
	case Sel:
		return Sel{substIdents(n.X, m), n.Name}
	case Index:
		return Index{substIdents(n.X, m), substIdents(n.I, m)}
	case Call:
		args := make([]Expr, len(n.Args))
		for i, a := range n.Args {
			args[i] = substIdents(a, m)
		}
		return Call{n.Fun, args}
	case Forall:
		m2 := map[string]Expr{}
		for k, v := range m {
			if k != n.Var {
				m2[k] = v
			}
		}
		f := Forall{Var: n.Var, Sort: n.Sort, Body: substIdents(n.Body, m2), Exists: n.Exists, Expand: n.Expand}
		if n.Lo != nil {
			f.Lo = substIdents(n.Lo, m)
		}
		if n.Hi != nil {
			f.Hi = substIdents(n.Hi, m)
		}
		if n.Trig != nil {
			f.Trig = substIdents(n.Trig, m2)
		}
		return f
	case Ite:
		return Ite{substIdents(n.C, m), substIdents(n.A, m), substIdents(n.B, m)}
	}
	return x
}
