package main

import (
	"fmt"
	"go/ast"
	"go/constant"
	"go/token"
	"go/types"
	"sort"
	"strconv"
	"strings"

	"golang.org/x/tools/go/ssa"
)

type Ptr struct {
	Local ssa.Value  // element of a private literal/varargs array (see LocalArr)
	LObj  ssa.Value  // field path inside a non-escaping local struct variable
	Elem  bool       // element of a slice backing array: HS_<sort>[Ref][Idx]
	Ref   string     // Int term: object ref or backing-array base
	Idx   string     // element index (absolute, off already added)
	Root  types.Type // type of the root object / element
	Path  []int      // struct field path below root
}

type Obligation struct {
	Name   string   // stable name inside the unit, e.g. post3, inv2.1.keep, bounds.4, pre@strings.Split.1
	Kind   string   // post inv autoinv pre at frame bounds nil assert nopanic makeslice reslice table lemma
	Props  []string // properties it is reported under (nil: the unit's)
	Path   []int    // block trace of the path it was generated on
	Assume []string
	Goal   string
	Src    string // clause text or source position
}

type State struct {
	vals    map[ssa.Value]string
	ptrs    map[ssa.Value]*Ptr
	heap    map[string]string
	assume  []string
	nextRef string
	snaps   map[string]string // entry snapshots "loop:name" -> term
	trace   []int
	conts   []func(results []string, st *State) // continuations of inlined calls
	boxed   map[string]*BoxInfo                 // Any term -> concrete type and value term
	rvs     map[ssa.Value]*RV                   // reflect.Value-typed SSA values, partially evaluated
	dbg     map[string]DbgBinding               // source variable name -> last DebugRef executed on this path
	larr    map[ssa.Value]*LocalArr             // non-escaping literal/varargs arrays kept out of the shared heap
	globals map[string]string                   // values stored to package-level variables on this path
	lobj    map[ssa.Value]string                // non-escaping local struct variables kept as value terms
	callHeaps map[string]map[string]string      // "callee#k" -> heaps right after that call returned
	closures  map[string]*ClosureInfo           // Fn term -> function and captured values
	mats      []*Mat                            // interior pointers passed to a call through a temporary cell (copy-in/copy-out)
}

// Mat: the address of a field (or of a value-kept local) that is passed to a call. The pointee is copied into a fresh
// cell whose reference stands for the pointer during the call; when the call returns the cell is copied back.
type Mat struct {
	V    ssa.Value // the FieldAddr/IndexAddr/Alloc value
	Tmp  string
	P    *Ptr
	Heap string
}

// ClosureInfo is a function value created by MakeClosure on this path.
type ClosureInfo struct {
	Fn       *ssa.Function
	Bindings []string
	Types    []types.Type
}

// LocalArr is the content of an array allocated for a composite literal or a variadic call.
type LocalArr struct {
	Term   string // (Array Int T)
	Sliced bool
}

type DbgBinding struct {
	X      ssa.Value
	IsAddr bool
}

type BoxInfo struct {
	Typ  types.Type
	Term string
}

// RV is a statically evaluated reflect.Value: the Go type is known, the value is a term.
type RV struct {
	Valid bool
	Typ   types.Type
	Term  string
}

func (s *State) clone() *State {
	n := &State{vals: map[ssa.Value]string{}, ptrs: map[ssa.Value]*Ptr{}, heap: map[string]string{}, snaps: map[string]string{}, nextRef: s.nextRef}
	for k, v := range s.vals {
		n.vals[k] = v
	}
	for k, v := range s.ptrs {
		n.ptrs[k] = v
	}
	for k, v := range s.heap {
		n.heap[k] = v
	}
	for k, v := range s.snaps {
		n.snaps[k] = v
	}
	n.assume = append([]string{}, s.assume...)
	n.trace = append([]int{}, s.trace...)
	n.conts = append([]func([]string, *State){}, s.conts...)
	n.boxed = map[string]*BoxInfo{}
	for k, v := range s.boxed {
		n.boxed[k] = v
	}
	n.rvs = map[ssa.Value]*RV{}
	for k, v := range s.rvs {
		n.rvs[k] = v
	}
	n.dbg = map[string]DbgBinding{}
	for k, v := range s.dbg {
		n.dbg[k] = v
	}
	n.lobj = map[ssa.Value]string{}
	for k, v := range s.lobj {
		n.lobj[k] = v
	}
	n.globals = map[string]string{}
	for k, v := range s.globals {
		n.globals[k] = v
	}
	n.closures = map[string]*ClosureInfo{}
	for k, v := range s.closures {
		n.closures[k] = v
	}
	n.callHeaps = map[string]map[string]string{}
	for k, v := range s.callHeaps {
		n.callHeaps[k] = v
	}
	n.larr = map[ssa.Value]*LocalArr{}
	for k, v := range s.larr {
		c := *v
		n.larr[k] = &c
	}
	n.mats = append([]*Mat{}, s.mats...)
	return n
}

// Loop invariant provider: returns invariant formulas given an environment.
type Env struct {
	e      *Exec
	st     *State
	header *ssa.BasicBlock
	phi    map[string]string // phi comment -> term (incoming or havoced)
}

func (v *Env) Phi(name string) string {
	t, ok := v.phi[name]
	if !ok {
		panic("no phi " + name + " at block " + fmt.Sprint(v.header.Index))
	}
	return t
}
func (v *Env) Val(name string) string { // SSA value by name, must be defined on this path
	for val, t := range v.st.vals {
		if val.Name() == name {
			return t
		}
	}
	panic("no value " + name)
}
func (v *Env) MakeSliceVal() string { // the unique MakeSlice value on this path (prototype helper)
	for val, t := range v.st.vals {
		if _, ok := val.(*ssa.MakeSlice); ok {
			return t
		}
	}
	panic("no makeslice")
}
func (v *Env) Arr(slice string, elemSort string) string {
	return fmt.Sprintf("(select %s (base %s))", v.st.heap[v.e.sorts.HeapSlice(elemSort)], slice)
}
func (v *Env) Snap(name string) string {
	t, ok := v.st.snaps[fmt.Sprintf("%d:%s", v.header.Index, name)]
	if !ok {
		panic("no snap " + name)
	}
	return t
}
func (v *Env) NextRef0() string         { return "nextRef0" }
func (v *Env) Heap0(name string) string { return name + "_0" }
func (v *Env) Heap(name string) string  { return v.e.heapSym(v.st, name) }

type LoopSpec struct {
	Snap func(*Env) map[string]string // evaluated at first arrival, before havoc
	Inv  func(*Env) []string
}

type Exec struct {
	fn          *ssa.Function
	sorts       *Sorts
	n           int
	decls       []string // const declarations
	obls        []Obligation
	loops       map[int]*LoopSpec    // header block index -> spec
	inLoop      map[int]map[int]bool // header -> set of blocks in natural loop
	post        func(e *Exec, st *State, results []string) []string
	paths       int
	idom        map[*ssa.BasicBlock]*ssa.BasicBlock
	externs     map[string]func(e *Exec, st *State, c *ssa.Call, args []string) string
	makeIface   func(e *Exec, st *State, m *ssa.MakeInterface) (string, bool)
	lookup      func(e *Exec, st *State, l *ssa.Lookup) string
	declared    map[string]bool
	inline      map[string]bool
	modelFields map[string]string // model field name -> heap name
	dead        map[ssa.Instruction]bool
	noMerge     bool
	initMode    bool
	lenient     bool // calls without contract get fresh results instead of stopping the run
	unmodelled  []string
	finals      []*State // states at returns (init mode)
	cs          *ContractSet
	contract    *FuncContract
	headers     []int // loop header block indices in source order (ordinal-1 -> index)
	undecided   []string
	noFrame     map[string]bool // heaps exempt from the default frame (modifies clause)
	curIns      ssa.Instruction // instruction being executed (names safety obligations)
	ords        map[*ssa.Function]map[ssa.Instruction]int
	preludeText string          // all prelude text of this unit (symbols defined there are not re-declared)
	applied     map[string]int  // contracts applied at call sites -> count
	atCallSeen  map[string]bool // callees of atcall clauses that were called on some path
	alias       map[string]string // contract name -> local name it is bound to instead (a renamed local; see RunCheck)
	visits      int             // executed blocks (guards against runaway unrolling)
	prog        *Program
	staticRecv  types.Type      // receiver type of a statically dispatched interface call being applied
	extraUses   []string        // preludes needed by box facts applied during the execution
	autoGlobals map[string]bool // package-level pointer variables named in contracts by their engine symbol
	watches     [][2]string // (source text, SMT term over the entry state) evaluated in counterexamples
}

func (e *Exec) declOnce(d string) {
	if e.declared == nil {
		e.declared = map[string]bool{}
	}
	if e.cs != nil { // a prelude may already define the symbol (it has to, if its spec functions use it)
		if f := strings.Fields(d); len(f) > 1 && (f[0] == "(declare-fun" || f[0] == "(define-fun-rec" || f[0] == "(declare-const") {
			if strings.Contains(e.preludeText, f[0]+" "+f[1]+" ") {
				return
			}
		}
	}
	if !e.declared[d] {
		e.declared[d] = true
		e.decls = append(e.decls, d)
	}
}

func (e *Exec) fresh(prefix, sort string) string {
	e.n++
	name := fmt.Sprintf("%s_%d", prefix, e.n)
	e.decls = append(e.decls, fmt.Sprintf("(declare-const %s %s)", name, sort))
	return name
}

func (e *Exec) dominates(a, b *ssa.BasicBlock) bool { return a.Dominates(b) }

// computeDead marks instructions whose only (transitive) use is as an argument of a dropped logging call.
func (e *Exec) computeDead(fn *ssa.Function) {
	if e.dead == nil {
		e.dead = map[ssa.Instruction]bool{}
	}
	isLog := func(ins ssa.Instruction) bool {
		c, ok := ins.(*ssa.Call)
		if !ok {
			return false
		}
		f := c.Call.StaticCallee()
		return f != nil && f.Pkg != nil && f.Pkg.Pkg.Path() == "github.com/wokdav/gopki/logging"
	}
	pure := func(ins ssa.Instruction) bool {
		switch x := ins.(type) {
		case *ssa.Alloc:
			return x.Comment == "varargs"
		case *ssa.IndexAddr, *ssa.MakeInterface, *ssa.ChangeInterface, *ssa.Slice, *ssa.BinOp, *ssa.FieldAddr, *ssa.Field, *ssa.Extract, *ssa.ChangeType, *ssa.Convert:
			return true
		case *ssa.Call:
			if m := x.Call.Method; m != nil && m.Name() == "Error" {
				return true
			}
		}
		return false
	}
	changed := true
	for changed {
		changed = false
		for _, b := range fn.Blocks {
			for _, ins := range b.Instrs {
				if e.dead[ins] {
					continue
				}
				if isLog(ins) {
					e.dead[ins] = true
					changed = true
					continue
				}
				if al, ok := ins.(*ssa.Alloc); ok && al.Comment == "varargs" { // whole argument array at once
					ok2 := true
					var group []ssa.Instruction
					for _, r := range *al.Referrers() {
						switch u := r.(type) {
						case *ssa.IndexAddr:
							group = append(group, u)
							for _, rr := range *u.Referrers() {
								if s, isS := rr.(*ssa.Store); isS && s.Addr == u {
									group = append(group, s)
								} else {
									ok2 = false
								}
							}
						case *ssa.Slice:
							if !e.dead[u] {
								ok2 = false
							}
						case *ssa.DebugRef:
						default:
							ok2 = false
						}
					}
					if ok2 {
						e.dead[al] = true
						for _, g := range group {
							e.dead[g] = true
						}
						changed = true
					}
					continue
				}
				if st, ok := ins.(*ssa.Store); ok { // store into an element of a dead varargs array
					if ia, ok := st.Addr.(*ssa.IndexAddr); ok && e.dead[ia] {
						e.dead[ins] = true
						changed = true
					}
					continue
				}
				v, isVal := ins.(ssa.Value)
				if !isVal || !pure(ins) || v.Referrers() == nil || len(*v.Referrers()) == 0 {
					continue
				}
				all := true
				for _, r := range *v.Referrers() {
					if _, isDbg := r.(*ssa.DebugRef); isDbg {
						continue
					}
					if !e.dead[r] {
						all = false
						break
					}
				}
				if all {
					e.dead[ins] = true
					changed = true
				}
			}
		}
	}
}

func (e *Exec) computeLoops() {
	e.computeDead(e.fn)
	e.inLoop = map[int]map[int]bool{}
	for _, b := range e.fn.Blocks {
		for _, s := range b.Succs {
			if s.Dominates(b) { // back edge b -> s
				set := e.inLoop[s.Index]
				if set == nil {
					set = map[int]bool{s.Index: true}
					e.inLoop[s.Index] = set
				}
				// walk predecessors from b until s
				var stack []*ssa.BasicBlock
				if !set[b.Index] {
					set[b.Index] = true
					stack = append(stack, b)
				}
				for len(stack) > 0 {
					x := stack[len(stack)-1]
					stack = stack[:len(stack)-1]
					for _, p := range x.Preds {
						if !set[p.Index] {
							set[p.Index] = true
							stack = append(stack, p)
						}
					}
				}
			}
		}
	}
}

// ---- terms ----

func (e *Exec) val(st *State, v ssa.Value) string {
	if t, ok := st.vals[v]; ok {
		return t
	}
	switch c := v.(type) {
	case *ssa.Const:
		return e.constTerm(c)
	case *ssa.Global:
		ga := "GA_" + sanitize(c.Pkg.Pkg.Path()+"."+c.Name())
		e.declOnce(fmt.Sprintf("(declare-const %s Int)", ga))
		e.declOnce(fmt.Sprintf("(assert (> %s 0))", ga))
		return ga
	case *ssa.Function:
		return "fn_" + sanitize(c.String())
	}
	if p, ok := st.ptrs[v]; ok && !p.Elem && len(p.Path) == 0 && p.LObj == nil && p.Local == nil {
		return p.Ref
	}
	if p, ok := st.ptrs[v]; ok && onlyPassedToCalls(v) {
		return e.materialize(st, v, p)
	}
	panic(fmt.Sprintf("no term for %s = %v (%T)", v.Name(), v, v))
}

// onlyPassedToCalls: every use of the address is a field access, a load, a store through it, an argument of a call, or
// a conversion to an interface value that is itself only an argument of calls. Such an address cannot be retained by
// this function; that callees do not retain it is an assumption of the copy-in/copy-out treatment.
func onlyPassedToCalls(v ssa.Value) bool {
	if v.Referrers() == nil {
		return false
	}
	for _, r := range *v.Referrers() {
		switch u := r.(type) {
		case *ssa.Call:
			if u.Call.Value == v {
				return false
			}
		case *ssa.MakeInterface:
			for _, r2 := range *u.Referrers() {
				if c, ok := r2.(*ssa.Call); !ok || c.Call.Value == ssa.Value(u) {
					if _, dbg := r2.(*ssa.DebugRef); !dbg {
						return false
					}
				}
			}
		case *ssa.FieldAddr, *ssa.DebugRef:
		case *ssa.UnOp:
			if u.Op != token.MUL {
				return false
			}
		case *ssa.Store:
			if u.Addr != v {
				return false
			}
		default:
			return false
		}
	}
	return true
}

func (e *Exec) materialize(st *State, v ssa.Value, p *Ptr) string {
	el := v.Type().Underlying().(*types.Pointer).Elem()
	if _, isArr := el.Underlying().(*types.Array); isArr {
		panic("address of an array inside an object passed to a call: out of subset")
	}
	hn := e.sorts.HeapObj(e.sorts.SortOf(el))
	r := e.alloc(st)
	st.assume = append(st.assume, fmt.Sprintf("(= (select %s %s) %s)", e.heapSym(st, hn), r, e.load(st, p)))
	st.mats = append(st.mats, &Mat{V: v, Tmp: r, P: p, Heap: hn})
	st.vals[v] = r
	e.applied["interior pointer passed to a call by copy-in/copy-out (the callee is assumed not to retain it)"]++
	return r
}

// writeBack: after a call, the temporary cells of the interior pointers among its arguments are copied back.
func (e *Exec) writeBack(st *State, c *ssa.Call) {
	if len(st.mats) == 0 {
		return
	}
	used := func(m *Mat) []ssa.Value {
		var out []ssa.Value
		for _, a := range c.Call.Args {
			if a == m.V {
				out = append(out, a)
			}
			if mi, ok := a.(*ssa.MakeInterface); ok && mi.X == m.V {
				out = append(out, a, m.V)
			}
		}
		return out
	}
	var keep []*Mat
	for _, m := range st.mats {
		u := used(m)
		if len(u) == 0 {
			keep = append(keep, m)
			continue
		}
		e.store(st, m.P, fmt.Sprintf("(select %s %s)", e.heapSym(st, m.Heap), m.Tmp))
		for _, x := range u {
			delete(st.vals, x)
		}
		delete(st.vals, m.V)
	}
	st.mats = keep
}

func (e *Exec) constTerm(c *ssa.Const) string {
	if c.Value == nil {
		return e.sorts.Zero(c.Type())
	}
	switch c.Value.Kind() {
	case constant.Bool:
		if constant.BoolVal(c.Value) {
			return "true"
		}
		return "false"
	case constant.Int:
		i, _ := constant.Int64Val(c.Value)
		if e.sorts.SortOf(c.Type()) == "(_ BitVec 8)" {
			return fmt.Sprintf("(_ bv%d 8)", i)
		}
		if i < 0 {
			return fmt.Sprintf("(- %d)", -i)
		}
		return fmt.Sprint(i)
	case constant.String:
		return smtStr(constant.StringVal(c.Value))
	}
	panic("const " + c.String())
}

func (e *Exec) ptr(st *State, v ssa.Value) *Ptr {
	if p, ok := st.ptrs[v]; ok {
		return p
	}
	// pointer-typed value known only as term: root pointer
	pt := v.Type().Underlying().(*types.Pointer)
	return &Ptr{Ref: e.val(st, v), Root: pt.Elem()}
}

func (e *Exec) pathType(root types.Type, path []int) types.Type {
	t := root
	for _, f := range path {
		t = t.Underlying().(*types.Struct).Field(f).Type()
	}
	return t
}

func (e *Exec) project(term string, root types.Type, path []int) string {
	t := root
	for _, f := range path {
		srt := e.sorts.SortOf(t)
		st := t.Underlying().(*types.Struct)
		if args, ok := ctorArgs(term, "mk_"+srt); ok && len(args) == st.NumFields() {
			term = args[f]
		} else {
			term = fmt.Sprintf("(%s %s)", e.sorts.Sel(srt, st, f), term)
		}
		t = st.Field(f).Type()
	}
	return term
}

// ctorArgs splits "(ctor a1 ... an)" into its top-level arguments.
func ctorArgs(term, ctor string) ([]string, bool) {
	if !strings.HasPrefix(term, "("+ctor+" ") || !strings.HasSuffix(term, ")") {
		return nil, false
	}
	body := term[len(ctor)+2 : len(term)-1]
	var args []string
	depth, start, inStr := 0, 0, false
	for i := 0; i < len(body); i++ {
		ch := body[i]
		switch {
		case ch == '"':
			inStr = !inStr
		case inStr:
		case ch == '(':
			depth++
		case ch == ')':
			depth--
		case ch == ' ' && depth == 0:
			if i > start {
				args = append(args, body[start:i])
			}
			start = i + 1
		}
	}
	if start < len(body) {
		args = append(args, body[start:])
	}
	return args, true
}

// nonEscaping: a local struct variable whose address is only used for field access, whole loads and stores.
func nonEscaping(a *ssa.Alloc) bool {
	var ok func(v ssa.Value) bool
	ok = func(v ssa.Value) bool {
		for _, r := range *v.Referrers() {
			switch u := r.(type) {
			case *ssa.FieldAddr:
				if u.X != v || !ok(u) {
					return false
				}
			case *ssa.Store:
				if u.Addr != v {
					return false
				}
			case *ssa.UnOp:
				if u.Op != token.MUL {
					return false
				}
			case *ssa.DebugRef:
			default:
				return false
			}
		}
		return true
	}
	return ok(a)
}

func (e *Exec) update(term string, root types.Type, path []int, nv string) string {
	if len(path) == 0 {
		return nv
	}
	srt := e.sorts.SortOf(root)
	st := root.Underlying().(*types.Struct)
	var fs []string
	for i := 0; i < st.NumFields(); i++ {
		sel := fmt.Sprintf("(%s %s)", e.sorts.Sel(srt, st, i), term)
		if i == path[0] {
			fs = append(fs, e.update(sel, st.Field(i).Type(), path[1:], nv))
		} else {
			fs = append(fs, sel)
		}
	}
	return fmt.Sprintf("(mk_%s %s)", srt, strings.Join(fs, " "))
}

func (e *Exec) load(st *State, p *Ptr) string {
	if p.LObj != nil {
		return e.project(st.lobj[p.LObj], p.Root, p.Path)
	}
	if p.Local != nil {
		return e.project(fmt.Sprintf("(select %s %s)", st.larr[p.Local].Term, p.Idx), p.Root, p.Path)
	}
	if arr, ok := p.Root.Underlying().(*types.Array); ok && !p.Elem && len(p.Path) == 0 { // whole array object: a row of the slice heap
		return fmt.Sprintf("(select %s %s)", e.heapSym(st, e.sorts.HeapSlice(e.sorts.SortOf(arr.Elem()))), p.Ref)
	}
	rs := e.sorts.SortOf(p.Root)
	var cell string
	if p.Elem {
		cell = fmt.Sprintf("(select (select %s %s) %s)", e.heapSym(st, e.sorts.HeapSlice(rs)), p.Ref, p.Idx)
	} else {
		cell = fmt.Sprintf("(select %s %s)", e.heapSym(st, e.sorts.HeapObj(rs)), p.Ref)
	}
	return e.project(cell, p.Root, p.Path)
}

func (e *Exec) heapSym(st *State, name string) string {
	if s, ok := st.heap[name]; ok {
		return s
	}
	s := name + "_0"
	st.heap[name] = s
	return s
}

func (e *Exec) store(st *State, p *Ptr, v string) {
	if p.LObj != nil {
		st.lobj[p.LObj] = e.update(st.lobj[p.LObj], p.Root, p.Path, v)
		return
	}
	if p.Local != nil {
		la := st.larr[p.Local]
		if la.Sliced {
			panic("store into a literal array after it was sliced: out of subset")
		}
		old := fmt.Sprintf("(select %s %s)", la.Term, p.Idx)
		la.Term = fmt.Sprintf("(store %s %s %s)", la.Term, p.Idx, e.update(old, p.Root, p.Path, v))
		return
	}
	if arr, ok := p.Root.Underlying().(*types.Array); ok && !p.Elem && len(p.Path) == 0 { // whole array object
		hn := e.sorts.HeapSlice(e.sorts.SortOf(arr.Elem()))
		h := e.heapSym(st, hn)
		nh := e.fresh(hn, e.sorts.heaps[hn])
		st.assume = append(st.assume, fmt.Sprintf("(= %s (store %s %s %s))", nh, h, p.Ref, v))
		st.heap[hn] = nh
		return
	}
	rs := e.sorts.SortOf(p.Root)
	if p.Elem {
		hn := e.sorts.HeapSlice(rs)
		h := e.heapSym(st, hn)
		old := fmt.Sprintf("(select (select %s %s) %s)", h, p.Ref, p.Idx)
		nv := e.update(old, p.Root, p.Path, v)
		nh := e.fresh(hn, e.sorts.heaps[hn])
		st.assume = append(st.assume, fmt.Sprintf("(= %s (store %s %s (store (select %s %s) %s %s)))", nh, h, p.Ref, h, p.Ref, p.Idx, nv))
		st.heap[hn] = nh
		return
	}
	hn := e.sorts.HeapObj(rs)
	h := e.heapSym(st, hn)
	old := fmt.Sprintf("(select %s %s)", h, p.Ref)
	nv := e.update(old, p.Root, p.Path, v)
	nh := e.fresh(hn, e.sorts.heaps[hn])
	st.assume = append(st.assume, fmt.Sprintf("(= %s (store %s %s %s))", nh, h, p.Ref, nv))
	st.heap[hn] = nh
}

func (e *Exec) alloc(st *State) string {
	r := e.fresh("ref", "Int")
	st.assume = append(st.assume, fmt.Sprintf("(= %s %s)", r, st.nextRef))
	nn := e.fresh("nextRef", "Int")
	st.assume = append(st.assume, fmt.Sprintf("(= %s (+ %s 1))", nn, st.nextRef))
	st.nextRef = nn
	return r
}

var safetyKinds = map[string]bool{"bounds": true, "nil": true, "assert": true, "nopanic": true, "makeslice": true, "reslice": true, "trunc": true}

// oblige records a verification condition. Safety kinds are named after the instruction being executed.
func (e *Exec) oblige(st *State, name, goal string) { e.obligeCl(st, name, goal, nil) }

func (e *Exec) obligeCl(st *State, name, goal string, cl *Clause) {
	o := Obligation{Name: name, Kind: kindOfName(name), Path: append([]int{}, st.trace...), Assume: append([]string{}, st.assume...), Goal: goal}
	if safetyKinds[name] {
		o.Kind = name
		o.Name = name + "." + e.insOrdinal(e.curIns)
		o.Props = []string{"C20"}
		if e.curIns != nil {
			o.Src = e.fn.Prog.Fset.Position(e.curIns.Pos()).String()
		}
	}
	if cl != nil {
		o.Props = cl.Props
		o.Src = cl.Src
		if cl.Line != "" {
			o.Src = cl.Line + ": " + cl.Src
		}
	}
	if o.Kind == "frame" && e.contract != nil && len(e.contract.FrameProps) > 0 {
		o.Props = e.contract.FrameProps
	}
	e.obls = append(e.obls, o)
}

func kindOfName(n string) string {
	for _, k := range []string{"post", "autoinv", "inv", "pre@", "at.", "frame", "table", "lemma"} {
		if strings.HasPrefix(n, k) {
			return strings.TrimRight(k, "@.")
		}
	}
	return n
}

// insOrdinal numbers the instructions that can carry a safety obligation, per function and per group, in program
// order, skipping instructions that only feed dropped logging calls; instructions of inlined callees carry the callee's name.
func (e *Exec) insOrdinal(ins ssa.Instruction) string {
	if ins == nil {
		return "0"
	}
	fn := ins.Parent()
	if e.ords == nil {
		e.ords = map[*ssa.Function]map[ssa.Instruction]int{}
	}
	m, ok := e.ords[fn]
	if !ok {
		m = map[ssa.Instruction]int{}
		cnt := map[string]int{}
		for _, b := range fn.Blocks {
			for _, i := range b.Instrs {
				if e.dead[i] {
					continue
				}
				g := ""
				switch x := i.(type) {
				case *ssa.IndexAddr, *ssa.Index, *ssa.Slice:
					g = "ix"
				case *ssa.FieldAddr, *ssa.MapUpdate:
					g = "deref"
				case *ssa.UnOp:
					if x.Op == token.MUL {
						g = "deref"
					}
				case *ssa.MakeSlice:
					g = "mk"
				case *ssa.TypeAssert:
					g = "ta"
				case *ssa.Panic:
					g = "pn"
				case *ssa.Convert:
					g = "cv"
				}
				if g != "" {
					cnt[g]++
					m[i] = cnt[g]
				}
			}
		}
		e.ords[fn] = m
	}
	if fn != e.fn {
		return fmt.Sprintf("%s.%d", fn.Name(), m[ins])
	}
	return fmt.Sprint(m[ins])
}

// ---- execution ----

func (e *Exec) Run() {
	e.computeLoops()
	st := &State{vals: map[ssa.Value]string{}, ptrs: map[ssa.Value]*Ptr{}, heap: map[string]string{}, snaps: map[string]string{}, nextRef: "nextRef0", boxed: map[string]*BoxInfo{}, rvs: map[ssa.Value]*RV{}, dbg: map[string]DbgBinding{}, larr: map[ssa.Value]*LocalArr{}, globals: map[string]string{}, lobj: map[ssa.Value]string{}}
	e.decls = append(e.decls, "(declare-const nextRef0 Int)")
	st.assume = append(st.assume, "(> nextRef0 0)")
	for _, fv := range e.fn.FreeVars {
		name := "fv_" + fv.Name()
		e.decls = append(e.decls, fmt.Sprintf("(declare-const %s %s)", name, e.sorts.SortOf(fv.Type())))
		st.vals[fv] = name
		if _, isPtr := fv.Type().Underlying().(*types.Pointer); isPtr { // a captured variable's cell exists
			st.assume = append(st.assume, fmt.Sprintf("(and (< 0 %s) (< %s nextRef0))", name, name))
		}
	}
	for _, p := range e.fn.Params {
		srt := e.sorts.SortOf(p.Type())
		name := "p_" + p.Name()
		e.decls = append(e.decls, fmt.Sprintf("(declare-const %s %s)", name, srt))
		st.vals[p] = name
		st.assume = append(st.assume, e.wellFormed(name, p.Type(), 2)...)
	}
	e.headers = nil
	for _, b := range e.fn.Blocks {
		if e.inLoop[b.Index] != nil {
			e.headers = append(e.headers, b.Index)
		}
	}
	if e.contract != nil {
		e.contractPre(st)
	}
	e.block(e.fn.Blocks[0], nil, st)
}

// wellFormed: slices reachable (by struct nesting) from a parameter value are valid, pre-existing
func (e *Exec) wellFormed(term string, t types.Type, depth int) []string {
	var out []string
	switch u := t.Underlying().(type) {
	case *types.Slice:
		out = append(out, fmt.Sprintf("(and (<= 0 (base %s)) (< (base %s) nextRef0) (<= 0 (off %s)) (<= 0 (len %s)) (<= (len %s) (cap %s)) (=> (= (base %s) 0) (= (cap %s) 0)) (= (off %s) 0))", term, term, term, term, term, term, term, term, term))
	case *types.Pointer:
		out = append(out, fmt.Sprintf("(and (<= 0 %s) (< %s nextRef0))", term, term))
	case *types.Basic:
		if u.Info()&types.IsUnsigned != 0 && e.sorts.SortOf(t) == "Int" {
			out = append(out, fmt.Sprintf("(<= 0 %s)", term))
		}
	case *types.Struct:
		if n, ok := t.(*types.Named); ok && e.sorts.opaque(n, u) {
			return nil
		}
		srt := e.sorts.SortOf(t)
		for i := 0; i < u.NumFields(); i++ {
			out = append(out, e.wellFormed(fmt.Sprintf("(%s %s)", e.sorts.Sel(srt, u, i), term), u.Field(i).Type(), depth)...)
		}
	}
	return out
}

// unrolled: the contract declares the loop `unroll`: its header is an ordinary join block. The loop condition has to
// fold to a constant at every visit (checked where the branch is taken); otherwise the unit leaves the subset.
func (e *Exec) unrolled(b *ssa.BasicBlock) bool {
	return e.contract != nil && b.Parent() == e.fn && e.contract.UnrollLoops[e.loopOrdinal(b)]
}

func (e *Exec) isHeader(b *ssa.BasicBlock) bool {
	return b.Parent() == e.fn && e.inLoop[b.Index] != nil
}

func (e *Exec) block(b *ssa.BasicBlock, pred *ssa.BasicBlock, st *State) {
	st.trace = append(st.trace, b.Index)
	e.visits++
	if e.visits > 400000 {
		panic("more than 400000 blocks executed (an unrolled loop whose condition does not fold?): out of subset")
	}
	// phis
	predIdx := -1
	if pred != nil {
		for i, p := range b.Preds {
			if p == pred {
				predIdx = i
			}
		}
	}
	incoming := map[*ssa.Phi]string{}
	for _, ins := range b.Instrs {
		phi, ok := ins.(*ssa.Phi)
		if !ok {
			break
		}
		incoming[phi] = e.val(st, phi.Edges[predIdx])
	}
	if e.isHeader(b) && !e.unrolled(b) {
		spec := e.loops[b.Index]
		if spec == nil && e.contract != nil {
			spec = e.contractLoop(b)
		}
		if spec == nil {
			panic(fmt.Sprintf("loop at block %d has no spec", b.Index))
		}
		back := pred != nil && b.Dominates(pred)
		if e.contract != nil {
			if reason, isAbs := e.contract.AbstractLoops[e.loopOrdinal(b)]; isAbs && !back {
				e.abstractLoop(st, b, incoming, reason)
				return
			}
		}
		env := &Env{e: e, st: st, header: b, phi: map[string]string{}}
		for phi, t := range incoming {
			env.phi[phi.Comment] = t
		}
		if !back && spec.Snap != nil {
			for k, v := range spec.Snap(env) {
				st.snaps[fmt.Sprintf("%d:%s", b.Index, k)] = v
			}
		}
		kind := "init"
		if back {
			kind = "keep"
		}
		ord := e.loopOrdinal(b)
		for i, inv := range e.autoInv(env, b) {
			e.oblige(st, fmt.Sprintf("autoinv%d.%d.%s", ord, i+1, kind), inv)
		}
		for i, inv := range spec.Inv(env) {
			var cl *Clause
			if e.contract != nil && i < len(e.contract.Loops[ord]) {
				cl = &e.contract.Loops[ord][i]
			}
			e.obligeCl(st, fmt.Sprintf("inv%d.%d.%s", ord, i+1, kind), inv, cl)
		}
		if back {
			e.paths++
			return
		}
		// havoc: phis, heaps stored to in loop, nextRef
		for phi := range incoming {
			h := e.fresh("phi_"+sanitize(phi.Comment), e.sorts.SortOf(phi.Type()))
			st.vals[phi] = h
			env.phi[phi.Comment] = h
		}
		for _, hn := range e.modifiedHeaps(b) {
			st.heap[hn] = e.fresh(hn, e.sorts.heaps[hn])
		}
		nn := e.fresh("nextRef", "Int")
		st.assume = append(st.assume, fmt.Sprintf("(>= %s %s)", nn, st.nextRef))
		st.nextRef = nn
		e.havocLocals(st, b)
		st.assume = append(st.assume, e.autoInv(env, b)...)
		st.assume = append(st.assume, spec.Inv(env)...)
	} else {
		for phi, t := range incoming {
			st.vals[phi] = t
		}
	}
	if b.Parent() == e.fn {
		for phi := range incoming {
			if phi.Comment != "" && phi.Comment != "rangeindex" && token.IsIdentifier(phi.Comment) {
				st.dbg[phi.Comment] = DbgBinding{phi, false}
			}
		}
	}
	e.runFrom(st, b, 0)
}

// havocLocals: local struct variables and local arrays that are kept as value terms (not in a heap), were declared
// before the loop and are written inside it, get an arbitrary value at the loop head.
func (e *Exec) havocLocals(st *State, h *ssa.BasicBlock) {
	seen := map[*ssa.Alloc]bool{}
	var order []*ssa.Alloc
	for _, b := range e.fn.Blocks {
		if !e.inLoop[h.Index][b.Index] {
			continue
		}
		for _, ins := range b.Instrs {
			x, ok := ins.(*ssa.Store)
			if !ok {
				continue
			}
			a := x.Addr
			for {
				if fa, ok := a.(*ssa.FieldAddr); ok {
					a = fa.X
				} else if ia, ok := a.(*ssa.IndexAddr); ok {
					a = ia.X
				} else {
					break
				}
			}
			al, ok := a.(*ssa.Alloc)
			if !ok || seen[al] || al.Block() == nil || e.inLoop[h.Index][al.Block().Index] {
				continue
			}
			seen[al] = true
			order = append(order, al)
		}
	}
	for _, al := range order {
		el := al.Type().Underlying().(*types.Pointer).Elem()
		if _, ok := st.lobj[al]; ok {
			t := e.fresh("local_"+sanitize(al.Comment), e.sorts.SortOf(el))
			st.lobj[al] = t
			st.assume = append(st.assume, e.wellFormedCur(t, el, st.nextRef)...)
		}
		if la, ok := st.larr[al]; ok {
			if arr, ok := el.Underlying().(*types.Array); ok {
				la.Term = e.fresh("localarr_"+sanitize(al.Comment), "(Array Int "+e.sorts.SortOf(arr.Elem())+")")
			}
		}
	}
}

// abstractLoop: the loop is not executed. Everything it may change is havoced, its clauses are ASSUMED, and execution
// continues at the loop's exit block. Used for loops outside the subset (range over a string); recorded as an assumption.
func (e *Exec) abstractLoop(st *State, b *ssa.BasicBlock, incoming map[*ssa.Phi]string, reason string) {
	ord := e.loopOrdinal(b)
	e.applied[fmt.Sprintf("abstract loop %d of %s (%s)", ord, shortName(e.contract.Name), reason)]++
	env := &Env{e: e, st: st, header: b, phi: map[string]string{}}
	for phi := range incoming {
		h := e.fresh("phi_"+sanitize(phi.Comment), e.sorts.SortOf(phi.Type()))
		st.vals[phi] = h
		env.phi[phi.Comment] = h
		if phi.Comment != "" && token.IsIdentifier(phi.Comment) {
			st.dbg[phi.Comment] = DbgBinding{phi, false}
		}
	}
	for _, hn := range e.modifiedHeaps(b) {
		st.heap[hn] = e.fresh(hn, e.sorts.heaps[hn])
	}
	nn := e.fresh("nextRef", "Int")
	st.assume = append(st.assume, fmt.Sprintf("(>= %s %s)", nn, st.nextRef))
	st.nextRef = nn
	e.havocLocals(st, b)
	st.assume = append(st.assume, e.autoInv(env, b)...)
	c := e.newCtx(st)
	c.header = b
	c.phi = env.phi
	c.snapKey = fmt.Sprint(b.Index)
	for i, cl := range e.contract.Loops[ord] {
		if t, ok := e.safeCompile(c, cl, fmt.Sprintf("abstract loop %d clause %d", ord, i+1)); ok {
			st.assume = append(st.assume, t)
		}
	}
	// exit: the unique successor of a loop block that lies outside the loop
	var exit, from *ssa.BasicBlock
	for _, blk := range e.fn.Blocks {
		if !e.inLoop[b.Index][blk.Index] {
			continue
		}
		for _, s := range blk.Succs {
			if !e.inLoop[b.Index][s.Index] {
				if exit != nil && exit != s {
					panic("abstract loop with several exits: out of subset")
				}
				exit, from = s, blk
			}
		}
	}
	if exit == nil {
		panic("abstract loop without exit")
	}
	e.block(exit, from, st)
}

func (e *Exec) runFrom(st *State, b *ssa.BasicBlock, from int) {
	for i := from; i < len(b.Instrs); i++ {
		ins := b.Instrs[i]
		if _, ok := ins.(*ssa.Phi); ok {
			continue
		}
		if e.dead[ins] {
			continue
		}
		if iff, ok := ins.(*ssa.If); ok && !e.noMerge {
			if e.tryMerge(st, b, iff) {
				return
			}
		}
		if call, ok := ins.(*ssa.Call); ok {
			if f := call.Call.StaticCallee(); e.shouldInline(f, len(st.conts)) {
				e.inlineCall(st, b, i, call, f)
				return
			}
		}
		if e.instr(st, b, ins) {
			return
		}
	}
}

// shouldInline: functions named by an inline directive, and functions of the repository that carry no contract, have
// no loop and are not the unit itself (a helper extracted by a refactoring is verified as part of its callers; the
// evidence lists it).
func (e *Exec) shouldInline(f *ssa.Function, depth int) bool {
	if f == nil || len(f.Blocks) == 0 {
		return false
	}
	if e.inline[f.String()] {
		return true
	}
	if e.cs == nil || f == e.fn || depth >= 4 || f.Pkg == nil || e.initMode {
		return false
	}
	path := f.Pkg.Pkg.Path()
	if !strings.HasPrefix(path, modPrefix) || strings.HasPrefix(path, modPrefix+"/logging") {
		return false
	}
	if _, ok := e.cs.Funcs[f.String()]; ok {
		return false
	}
	if _, ok := e.externs[f.String()]; ok {
		return false
	}
	if strings.HasSuffix(f.String(), ".init") || f.Synthetic != "" {
		return false
	}
	for _, b := range f.Blocks {
		for _, p := range b.Preds {
			if b.Dominates(p) {
				return false // a loop: needs a contract with invariants
			}
		}
	}
	return true
}

func (e *Exec) inlineCall(st *State, b *ssa.BasicBlock, i int, call *ssa.Call, f *ssa.Function) {
	if !e.inline[f.String()] {
		e.applied["callee without contract verified inline: "+f.String()]++
	}
	for k, p := range f.Params {
		a := call.Call.Args[k]
		st.vals[p] = e.val(st, a)
		if pp, ok := st.ptrs[a]; ok {
			st.ptrs[p] = pp
		}
	}
	st.conts = append(st.conts, func(results []string, st2 *State) {
		st2.vals[call] = strings.Join(results, "\x00")
		e.runFrom(st2, b, i+1)
	})
	e.block(f.Blocks[0], nil, st)
}

// auto invariants: frame-so-far for every modified slice heap; slices among header phis are fresh, off 0, len<=cap, pairwise distinct bases
func (e *Exec) autoInv(env *Env, b *ssa.BasicBlock) []string {
	var out []string
	for _, hn := range e.modifiedHeaps(b) {
		if e.noFrame[hn] || (e.contract != nil && e.contract.NoFrame) {
			continue
		}
		if strings.HasPrefix(hn, "MF_") {
			out = append(out, fmt.Sprintf("(= %s %s_0)", e.heapSym(env.st, hn), hn))
			continue
		}
		out = append(out, fmt.Sprintf("(forall ((r Int)) (=> (and (<= 0 r) (< r nextRef0)) (= (select %s r) (select %s_0 r))))", e.heapSym(env.st, hn), hn))
	}
	// type invariant of the heaps the loop writes: every slice or pointer stored in an allocated cell refers to allocated memory
	var names []string
	for n := range env.phi {
		names = append(names, n)
	}
	sort.Strings(names)
	var slices []string
	for _, ins := range b.Instrs {
		phi, ok := ins.(*ssa.Phi)
		if !ok {
			break
		}
		if _, ok := phi.Type().Underlying().(*types.Slice); ok && !(e.contract != nil && e.contract.NoSliceFacts) {
			t := env.phi[phi.Comment]
			slices = append(slices, t)
			out = append(out, fmt.Sprintf("(and (>= (base %s) nextRef0) (< (base %s) %s) (= (off %s) 0) (<= 0 (len %s)) (<= (len %s) (cap %s)))", t, t, env.st.nextRef, t, t, t, t))
		}
	}
	for i := range slices {
		for j := i + 1; j < len(slices); j++ {
			out = append(out, fmt.Sprintf("(not (= (base %s) (base %s)))", slices[i], slices[j]))
		}
	}
	return out
}

// heapTypeInv: well-formedness of the slices and pointers stored in a heap, relative to the current allocation counter.
func (e *Exec) heapTypeInv(st *State, hn string) []string {
	var cell, binder, sortName string
	cur := e.heapSym(st, hn)
	switch {
	case strings.HasPrefix(hn, "HS_"):
		sortName = strings.TrimPrefix(hn, "HS_")
		cell, binder = fmt.Sprintf("(select (select %s r) k)", cur), "((r Int) (k Int))"
	case strings.HasPrefix(hn, "H_"):
		sortName = strings.TrimPrefix(hn, "H_")
		cell, binder = fmt.Sprintf("(select %s r)", cur), "((r Int))"
	default:
		return nil
	}
	var wfs []string
	if sortName == "Slice" {
		wfs = []string{e.sliceWfCur(cell, st.nextRef)}
	} else if t, ok := e.sorts.typeOf[sortName]; ok {
		wfs = e.wellFormedCur(cell, t, st.nextRef)
	}
	var out []string
	for _, w := range wfs {
		out = append(out, fmt.Sprintf("(forall %s (=> (and (<= 0 r) (< r %s)) %s))", binder, st.nextRef, w))
	}
	return out
}

func (e *Exec) sliceWfCur(t, nr string) string {
	return fmt.Sprintf("(and (<= 0 (base %s)) (< (base %s) %s) (<= 0 (off %s)) (<= 0 (len %s)) (<= (len %s) (cap %s)) (=> (= (base %s) 0) (= (cap %s) 0)))", t, t, nr, t, t, t, t, t, t)
}

func (e *Exec) wellFormedCur(term string, t types.Type, nr string) []string {
	var out []string
	switch u := t.Underlying().(type) {
	case *types.Slice:
		out = append(out, e.sliceWfCur(term, nr))
	case *types.Pointer:
		out = append(out, fmt.Sprintf("(and (<= 0 %s) (< %s %s))", term, term, nr))
	case *types.Struct:
		if n, ok := t.(*types.Named); ok && e.sorts.opaque(n, u) {
			return nil
		}
		srt := e.sorts.SortOf(t)
		for i := 0; i < u.NumFields(); i++ {
			out = append(out, e.wellFormedCur(fmt.Sprintf("(%s %s)", e.sorts.Sel(srt, u, i), term), u.Field(i).Type(), nr)...)
		}
	}
	return out
}

func (e *Exec) modifiedHeaps(h *ssa.BasicBlock) []string {
	set := map[string]bool{}
	for _, b := range e.fn.Blocks {
		if !e.inLoop[h.Index][b.Index] {
			continue
		}
		e.blockEffects(b, set, 0)
	}
	var out []string
	for k := range set {
		out = append(out, k)
	}
	sort.Strings(out)
	return out
}

// blockEffects adds the heaps the instructions of a block may write; calls that are verified inline contribute the
// effects of the callee's body.
func (e *Exec) blockEffects(b *ssa.BasicBlock, set map[string]bool, depth int) {
	{
		for _, ins := range b.Instrs {
			switch x := ins.(type) {
			case *ssa.Store:
				if ia, ok := x.Addr.(*ssa.IndexAddr); ok { // element of a private literal/varargs array: not a heap write
					if al, ok := ia.X.(*ssa.Alloc); ok && (al.Comment == "varargs" || al.Comment == "slicelit") && onlyLiteralUses(al) {
						continue
					}
				}
				if al, ok := x.Addr.(*ssa.Alloc); ok && !al.Heap && nonEscaping(al) {
					continue // local struct variable kept as a value term
				}
				if fa, ok := x.Addr.(*ssa.FieldAddr); ok {
					if al, ok := fa.X.(*ssa.Alloc); ok && !al.Heap && nonEscaping(al) {
						continue
					}
				}
				set[e.heapOfAddr(x.Addr)] = true
			case *ssa.MapUpdate:
				mt := x.Map.Type().Underlying().(*types.Map)
				set[e.sorts.HeapMap(e.sorts.SortOf(mt.Key()), e.sorts.SortOf(mt.Elem()))] = true
				set[e.sorts.HeapMapDom(e.sorts.SortOf(mt.Key()))] = true
				set[e.sorts.HeapMapLen()] = true
			case *ssa.Call:
				if bi, ok := x.Call.Value.(*ssa.Builtin); ok && bi.Name() == "append" {
					el := x.Type().Underlying().(*types.Slice).Elem()
					set[e.sorts.HeapSlice(e.sorts.SortOf(el))] = true
				}
				if bi, ok := x.Call.Value.(*ssa.Builtin); ok && bi.Name() == "copy" {
					el := x.Call.Args[0].Type().Underlying().(*types.Slice).Elem()
					set[e.sorts.HeapSlice(e.sorts.SortOf(el))] = true
				}
				if f := x.Call.StaticCallee(); e.shouldInline(f, depth) && depth < 4 {
					for _, cb := range f.Blocks {
						e.blockEffects(cb, set, depth+1)
					}
					continue
				}
				for _, hn := range e.calleeEffects(x) {
					set[hn] = true
				}
			}
		}
	}
}

// calleeEffects: heaps a contracted call may change (havoc, modifies, model-field updates, assigned locations).
func (e *Exec) calleeEffects(c *ssa.Call) []string {
	if e.cs == nil {
		return nil
	}
	key := ""
	var callee *ssa.Function
	if c.Call.IsInvoke() {
		key = e.invokeKey(c)
	} else if f := c.Call.StaticCallee(); f != nil {
		key = f.String()
		callee = f
	}
	fc, ok := e.cs.Funcs[key]
	if !ok {
		return nil
	}
	var out []string
	for _, hn := range append(append([]string{}, fc.Havoc...), fc.Modifies...) {
		if mf, ok := e.modelFields[hn]; ok {
			hn = mf
		}
		out = append(out, hn)
	}
	for _, u := range fc.Updates {
		if mf, ok := e.modelFields[u.Field]; ok {
			out = append(out, mf)
		}
	}
	if fc.usesFresh() {
		// allocation only: nextRef is havoced by every loop anyway
	}
	for _, a := range fc.Assigns {
		if t := e.staticRootOf(a.E, fc, callee, c); t != nil {
			out = append(out, e.sorts.HeapObj(e.sorts.SortOf(t)))
		}
	}
	return out
}

// staticRootOf: the struct type of the object that holds the location x.f.g (the innermost pointer dereferenced).
func (e *Exec) staticRootOf(x Expr, fc *FuncContract, callee *ssa.Function, call *ssa.Call) types.Type {
	var typeOf func(x Expr) types.Type
	typeOf = func(x Expr) types.Type {
		switch n := x.(type) {
		case Ident:
			params := fc.Params
			if len(params) == 0 && callee != nil {
				for _, p := range callee.Params {
					params = append(params, p.Name())
				}
			}
			var ptys []types.Type
			sig := call.Call.Signature()
			if call.Call.IsInvoke() {
				ptys = append(ptys, call.Call.Value.Type())
			} else if sig.Recv() != nil {
				ptys = append(ptys, sig.Recv().Type())
			}
			for i := 0; i < sig.Params().Len(); i++ {
				ptys = append(ptys, sig.Params().At(i).Type())
			}
			for i, p := range params {
				if p == n.Name && i < len(ptys) {
					return ptys[i]
				}
			}
		case Sel:
			t := typeOf(n.X)
			if t == nil {
				return nil
			}
			if pt, ok := t.Underlying().(*types.Pointer); ok {
				t = pt.Elem()
			}
			obj, _, _ := types.LookupFieldOrMethod(t, true, nil, n.Name)
			if obj == nil {
				if nn, ok := t.(*types.Named); ok {
					obj, _, _ = types.LookupFieldOrMethod(t, true, nn.Obj().Pkg(), n.Name)
				}
			}
			if v, ok := obj.(*types.Var); ok {
				return v.Type()
			}
		case Call:
			if n.Fun == "deref" && len(n.Args) == 1 {
				if t := typeOf(n.Args[0]); t != nil {
					if pt, ok := t.Underlying().(*types.Pointer); ok {
						return pt.Elem()
					}
				}
			}
		}
		return nil
	}
	// walk down the selector chain: the root is the element type of the last pointer on the way to the field
	var root types.Type
	var walk func(x Expr)
	walk = func(x Expr) {
		if s, ok := x.(Sel); ok {
			walk(s.X)
			if t := typeOf(s.X); t != nil {
				if pt, ok := t.Underlying().(*types.Pointer); ok {
					root = pt.Elem()
				} else if st, ok := t.Underlying().(*types.Struct); ok && root != nil {
					// embedded pointer fields: x.f where f is promoted through an embedded pointer
					_ = st
					if obj, path, _ := types.LookupFieldOrMethod(t, true, nil, s.Name); obj != nil && len(path) > 1 {
						cur := t
						for _, fi := range path[:len(path)-1] {
							ft := cur.Underlying().(*types.Struct).Field(fi).Type()
							if pt, ok := ft.Underlying().(*types.Pointer); ok {
								root = pt.Elem()
								cur = pt.Elem()
							} else {
								cur = ft
							}
						}
					}
				}
				if pt, ok := t.Underlying().(*types.Pointer); ok { // promoted field through embedded pointer of the pointee
					if obj, path, _ := types.LookupFieldOrMethod(pt.Elem(), true, nil, s.Name); obj != nil && len(path) > 1 {
						cur := pt.Elem()
						for _, fi := range path[:len(path)-1] {
							ft := cur.Underlying().(*types.Struct).Field(fi).Type()
							if p2, ok := ft.Underlying().(*types.Pointer); ok {
								root = p2.Elem()
								cur = p2.Elem()
							} else {
								cur = ft
							}
						}
					}
				}
			}
		}
		if c, ok := x.(Call); ok && c.Fun == "deref" {
			if t := typeOf(x); t != nil {
				root = t
			}
		}
	}
	walk(x)
	return root
}

// heapOfAddr: which heap a store through this address expression touches (static)
func (e *Exec) heapOfAddr(a ssa.Value) string {
	switch x := a.(type) {
	case *ssa.FieldAddr:
		return e.heapOfAddr(x.X)
	case *ssa.IndexAddr:
		switch t := x.X.Type().Underlying().(type) {
		case *types.Slice:
			return e.sorts.HeapSlice(e.sorts.SortOf(t.Elem()))
		case *types.Pointer: // *[N]T
			return e.sorts.HeapSlice(e.sorts.SortOf(t.Elem().Underlying().(*types.Array).Elem()))
		}
	}
	pt := a.Type().Underlying().(*types.Pointer)
	if arr, ok := pt.Elem().Underlying().(*types.Array); ok {
		return e.sorts.HeapSlice(e.sorts.SortOf(arr.Elem()))
	}
	return e.sorts.HeapObj(e.sorts.SortOf(pt.Elem()))
}

func (e *Exec) instr(st *State, b *ssa.BasicBlock, ins ssa.Instruction) (stop bool) {
	e.curIns = ins
	switch x := ins.(type) {
	case *ssa.DebugRef:
		if id, ok := x.Expr.(*ast.Ident); ok && x.Parent() == e.fn {
			st.dbg[id.Name] = DbgBinding{x.X, x.IsAddr}
		}
		return false
	case *ssa.Alloc:
		r := e.alloc(st)
		if arr, ok := x.Type().Underlying().(*types.Pointer).Elem().Underlying().(*types.Array); ok && (x.Comment == "varargs" || x.Comment == "slicelit") && onlyLiteralUses(x) {
			st.larr[x] = &LocalArr{Term: e.sorts.Zero(arr)}
			return false
		}
		if arr, ok := x.Type().Underlying().(*types.Pointer).Elem().Underlying().(*types.Array); ok {
			// array object lives in the slice heap of its element sort
			es := e.sorts.SortOf(arr.Elem())
			h := e.heapSym(st, e.sorts.HeapSlice(es))
			st.assume = append(st.assume, fmt.Sprintf("(= (select %s %s) %s)", h, r, e.sorts.Zero(arr)))
			st.vals[x] = r
			return false
		}
		el := x.Type().Underlying().(*types.Pointer).Elem()
		if _, isSt := el.Underlying().(*types.Struct); isSt && !x.Heap && nonEscaping(x) && strings.HasPrefix(e.sorts.SortOf(el), "S_") {
			st.lobj[x] = e.sorts.Zero(el)
			st.ptrs[x] = &Ptr{LObj: x, Root: el}
			return false
		}
		h := e.heapSym(st, e.sorts.HeapObj(e.sorts.SortOf(el)))
		st.assume = append(st.assume, fmt.Sprintf("(= (select %s %s) %s)", h, r, e.sorts.Zero(el)))
		st.ptrs[x] = &Ptr{Ref: r, Root: el}
		if e.cs != nil {
			if fc, ok := e.cs.Funcs["new:"+el.String()]; ok {
				e.applySimple(st, fc, []string{r}, []types.Type{x.Type()}, nil)
			}
		}
	case *ssa.FieldAddr:
		if _, known := st.ptrs[x.X]; !known {
			e.oblige(st, "nil", fmt.Sprintf("(not (= %s 0))", e.val(st, x.X)))
		}
		p := e.ptr(st, x.X)
		np := *p
		np.Path = append(append([]int{}, p.Path...), x.Field)
		st.ptrs[x] = &np
	case *ssa.Field:
		st.vals[x] = e.project(e.val(st, x.X), x.X.Type(), []int{x.Field})
	case *ssa.IndexAddr:
		idx := e.val(st, x.Index)
		switch t := x.X.Type().Underlying().(type) {
		case *types.Slice:
			s := e.val(st, x.X)
			e.oblige(st, "bounds", fmt.Sprintf("(and (<= 0 %s) (< %s (len %s)))", idx, idx, s))
			st.ptrs[x] = &Ptr{Elem: true, Ref: fmt.Sprintf("(base %s)", s), Idx: fmt.Sprintf("(+ (off %s) %s)", s, idx), Root: t.Elem()}
		case *types.Pointer:
			arr := t.Elem().Underlying().(*types.Array)
			if _, ok := st.larr[x.X]; ok {
				e.oblige(st, "bounds", fmt.Sprintf("(and (<= 0 %s) (< %s %d))", idx, idx, arr.Len()))
				st.ptrs[x] = &Ptr{Local: x.X, Idx: idx, Root: arr.Elem()}
				return false
			}
			r := e.val(st, x.X)
			e.oblige(st, "bounds", fmt.Sprintf("(and (<= 0 %s) (< %s %d))", idx, idx, arr.Len()))
			st.ptrs[x] = &Ptr{Elem: true, Ref: r, Idx: idx, Root: arr.Elem()}
		default:
			panic("indexaddr")
		}
	case *ssa.UnOp:
		switch x.Op {
		case token.MUL:
			if g, ok := x.X.(*ssa.Global); ok && e.cs != nil {
				if t, ok := e.cs.GlobalVals[g.Pkg.Pkg.Path()+"."+g.Name()]; ok {
					e.sorts.SortOf(g.Type().Underlying().(*types.Pointer).Elem())
					st.vals[x] = t
					return false
				}
			}
			if g, ok := x.X.(*ssa.Global); ok && !isStruct(g.Type().Underlying().(*types.Pointer).Elem()) {
				gn := "G_" + sanitize(g.Pkg.Pkg.Path()+"."+g.Name())
				if v, ok := st.globals[gn]; ok {
					st.vals[x] = v
					return false
				}
				e.declOnce(fmt.Sprintf("(declare-const %s %s)", gn, e.sorts.SortOf(g.Type().Underlying().(*types.Pointer).Elem())))
				st.vals[x] = gn
				return false
			}
			if _, known := st.ptrs[x.X]; !known {
				e.oblige(st, "nil", fmt.Sprintf("(not (= %s 0))", e.val(st, x.X)))
			}
			st.vals[x] = e.load(st, e.ptr(st, x.X))
			// every slice value held by a live object has the shape of a slice (0 <= len <= cap, ...), in every state
			st.assume = append(st.assume, e.shapeFacts(st.vals[x], x.Type(), 0)...)
		case token.NOT:
			st.vals[x] = fmt.Sprintf("(not %s)", e.val(st, x.X))
		case token.SUB:
			st.vals[x] = fmt.Sprintf("(- %s)", e.val(st, x.X))
		default:
			panic("unop " + x.Op.String())
		}
	case *ssa.Store:
		if g, ok := x.Addr.(*ssa.Global); ok && !isStruct(g.Type().Underlying().(*types.Pointer).Elem()) {
			st.globals["G_"+sanitize(g.Pkg.Pkg.Path()+"."+g.Name())] = e.val(st, x.Val)
			return false
		}
		e.store(st, e.ptr(st, x.Addr), e.val(st, x.Val))
	case *ssa.BinOp:
		a, bb := e.val(st, x.X), e.val(st, x.Y)
		if e.sorts.SortOf(x.X.Type()) == "String" && x.Op == token.ADD {
			st.vals[x] = fmt.Sprintf("(str.++ %s %s)", a, bb)
			return false
		}
		if _, ok := x.X.Type().Underlying().(*types.Slice); ok { // only == nil / != nil
			if c, ok := x.Y.(*ssa.Const); ok && c.Value == nil {
				t := fmt.Sprintf("(= (base %s) 0)", a)
				if x.Op == token.NEQ {
					t = "(not " + t + ")"
				}
				st.vals[x] = t
				return false
			}
			panic("slice comparison")
		}
		if e.sorts.SortOf(x.X.Type()) == "(_ BitVec 8)" {
			bop := map[token.Token]string{token.AND: "bvand", token.OR: "bvor", token.XOR: "bvxor", token.GTR: "bvugt", token.LSS: "bvult", token.GEQ: "bvuge", token.LEQ: "bvule", token.EQL: "="}[x.Op]
			if x.Op == token.NEQ {
				st.vals[x] = fmt.Sprintf("(not (= %s %s))", a, bb)
			} else if bop != "" {
				st.vals[x] = fmt.Sprintf("(%s %s %s)", bop, a, bb)
			} else {
				panic("bv binop " + x.Op.String())
			}
			return false
		}
		op := map[token.Token]string{token.ADD: "+", token.SUB: "-", token.MUL: "*", token.LSS: "<", token.LEQ: "<=", token.GTR: ">", token.GEQ: ">=", token.EQL: "="}[x.Op]
		switch {
		case isLit(a) && isLit(bb) && e.sorts.SortOf(x.X.Type()) == "Int" && foldable(x.Op):
			st.vals[x] = foldInt(x.Op, a, bb)
		case isLit(a) && isLit(bb) && (x.Op == token.EQL || x.Op == token.NEQ):
			if (a == bb) == (x.Op == token.EQL) {
				st.vals[x] = "true"
			} else {
				st.vals[x] = "false"
			}
		case x.Op == token.NEQ:
			st.vals[x] = fmt.Sprintf("(not (= %s %s))", a, bb)
		case x.Op == token.QUO && e.sorts.SortOf(x.X.Type()) == "Int": // Go truncates toward zero
			e.oblige(st, "nopanic", fmt.Sprintf("(not (= %s 0))", bb))
			st.vals[x] = fmt.Sprintf("(ite (>= %s 0) (div %s %s) (- (div (- %s) %s)))", a, a, bb, a, bb)
		case x.Op == token.REM && e.sorts.SortOf(x.X.Type()) == "Int":
			e.oblige(st, "nopanic", fmt.Sprintf("(not (= %s 0))", bb))
			st.vals[x] = fmt.Sprintf("(ite (>= %s 0) (mod %s %s) (- (mod (- %s) %s)))", a, a, bb, a, bb)
		case op != "":
			st.vals[x] = fmt.Sprintf("(%s %s %s)", op, a, bb)
		default:
			panic("binop " + x.Op.String())
		}
	case *ssa.MakeSlice:
		r := e.alloc(st)
		ln, cp := e.val(st, x.Len), e.val(st, x.Cap)
		el := x.Type().Underlying().(*types.Slice).Elem()
		es := e.sorts.SortOf(el)
		h := e.heapSym(st, e.sorts.HeapSlice(es))
		st.assume = append(st.assume, fmt.Sprintf("(forall ((k Int)) (=> (and (<= 0 k) (< k %s)) (= (select (select %s %s) k) %s)))", cp, h, r, e.sorts.Zero(el)))
		if es == "(_ BitVec 8)" { // a fresh byte buffer is all zero bytes, whatever prefix of it is looked at (lemma bytes_zero_prefix)
			e.declOnce("(declare-fun bzeros (Int) Bytes)")
			st.assume = append(st.assume, fmt.Sprintf("(forall ((j Int)) (! (=> (and (<= 0 j) (<= j %s)) (= (bytesv (select %s %s) 0 j) (bzeros j))) :pattern ((bytesv (select %s %s) 0 j))))", cp, h, r, h, r))
		}
		e.oblige(st, "makeslice", fmt.Sprintf("(and (<= 0 %s) (<= %s %s))", ln, ln, cp))
		st.vals[x] = fmt.Sprintf("(mkslice %s 0 %s %s)", r, ln, cp)
	case *ssa.Slice:
		pt, ok := x.X.Type().Underlying().(*types.Pointer)
		if !ok || x.Low != nil || x.High != nil {
			e.sliceExpr(st, x)
			return false
		}
		n := pt.Elem().Underlying().(*types.Array).Len()
		if la, ok := st.larr[x.X]; ok {
			// the slice gets a fresh backing array whose content is learned, not stored
			r := e.alloc(st)
			es := e.sorts.SortOf(pt.Elem().Underlying().(*types.Array).Elem())
			st.assume = append(st.assume, fmt.Sprintf("(= (select %s %s) %s)", e.heapSym(st, e.sorts.HeapSlice(es)), r, la.Term))
			la.Sliced = true
			st.vals[x] = fmt.Sprintf("(mkslice %s 0 %d %d)", r, n, n)
			return false
		}
		st.vals[x] = fmt.Sprintf("(mkslice %s 0 %d %d)", e.val(st, x.X), n, n)
	case *ssa.Convert:
		key := "convert:" + convTypeName(x.Type()) + "<-" + convTypeName(x.X.Type())
		if e.cs != nil {
			if fc, ok := e.cs.Funcs[key]; ok {
				st.vals[x] = e.applySimple(st, fc, []string{e.val(st, x.X)}, []types.Type{x.X.Type()}, x.Type())
				return false
			}
		}
		if e.sorts.SortOf(x.Type()) == e.sorts.SortOf(x.X.Type()) {
			st.vals[x] = e.val(st, x.X)
			return false
		}
		if isLit(e.val(st, x.X)) && e.sorts.SortOf(x.Type()) == "Int" {
			st.vals[x] = e.val(st, x.X)
			return false
		}
		if e.sorts.SortOf(x.Type()) == "(_ BitVec 8)" && e.sorts.SortOf(x.X.Type()) == "Int" { // int -> byte: lossy unless 0..255
			v := e.val(st, x.X)
			e.oblige(st, "trunc", fmt.Sprintf("(and (<= 0 %s) (<= %s 255))", v, v))
			st.vals[x] = fmt.Sprintf("((_ int2bv 8) %s)", v)
			return false
		}
		if e.sorts.SortOf(x.Type()) == "Int" && e.sorts.SortOf(x.X.Type()) == "(_ BitVec 8)" { // byte -> int
			st.vals[x] = fmt.Sprintf("(bv2nat %s)", e.val(st, x.X))
			return false
		}
		panic("conversion without contract: " + key)
	case *ssa.MakeMap:
		mt := x.Type().Underlying().(*types.Map)
		r := e.alloc(st)
		hd := e.sorts.HeapMapDom(e.sorts.SortOf(mt.Key()))
		e.sorts.HeapMap(e.sorts.SortOf(mt.Key()), e.sorts.SortOf(mt.Elem()))
		st.assume = append(st.assume, fmt.Sprintf("(= (select %s %s) ((as const (Array %s Bool)) false))", e.heapSym(st, hd), r, e.sorts.SortOf(mt.Key())))
		st.assume = append(st.assume, fmt.Sprintf("(= (select %s %s) 0)", e.heapSym(st, e.sorts.HeapMapLen()), r))
		st.vals[x] = r
	case *ssa.MapUpdate:
		mt := x.Map.Type().Underlying().(*types.Map)
		ks, vs := e.sorts.SortOf(mt.Key()), e.sorts.SortOf(mt.Elem())
		m, k, v := e.val(st, x.Map), e.val(st, x.Key), e.val(st, x.Value)
		e.oblige(st, "nil", fmt.Sprintf("(not (= %s 0))", m))
		{ // the number of keys grows by one unless the key was present
			hl := e.sorts.HeapMapLen()
			h := e.heapSym(st, hl)
			present := fmt.Sprintf("(select (select %s %s) %s)", e.heapSym(st, e.sorts.HeapMapDom(ks)), m, k)
			nh := e.fresh(hl, e.sorts.heaps[hl])
			st.assume = append(st.assume, fmt.Sprintf("(= %s (store %s %s (ite %s (select %s %s) (+ (select %s %s) 1))))", nh, h, m, present, h, m, h, m))
			st.heap[hl] = nh
		}
		for _, up := range [][2]string{{e.sorts.HeapMap(ks, vs), v}, {e.sorts.HeapMapDom(ks), "true"}} {
			h := e.heapSym(st, up[0])
			nh := e.fresh(up[0], e.sorts.heaps[up[0]])
			st.assume = append(st.assume, fmt.Sprintf("(= %s (store %s %s (store (select %s %s) %s %s)))", nh, h, m, h, m, k, up[1]))
			st.heap[up[0]] = nh
		}
	case *ssa.ChangeInterface:
		st.vals[x] = e.val(st, x.X)
	case *ssa.ChangeType:
		st.vals[x] = e.val(st, x.X)
	case *ssa.MakeInterface:
		if e.makeIface != nil {
			if t, ok := e.makeIface(e, st, x); ok {
				st.vals[x] = t
				return false
			}
		}
		bx := e.fresh("boxed", "Any")
		tag := "tag_" + sanitize(types.Unalias(x.X.Type()).String())
		e.declOnce(fmt.Sprintf("(declare-const %s Int)", tag))
		st.assume = append(st.assume, fmt.Sprintf("(and (= (typeof %s) %s) (not (= %s nilAny)))", bx, tag, bx))
		st.boxed[bx] = &BoxInfo{Typ: x.X.Type(), Term: e.val(st, x.X)}
		if _, isPtr := x.X.Type().Underlying().(*types.Pointer); isPtr {
			st.assume = append(st.assume, fmt.Sprintf("(= (unboxRef %s) %s)", bx, e.val(st, x.X)))
		}
		if e.cs != nil {
			for _, bf := range e.cs.BoxFacts[x.X.Type().String()] {
				c := e.newCtx(st)
				c.fn = nil
				c.vars["box"] = CVal{T: bx, Sort: "Any"}
				c.vars["val"] = c.val(e.val(st, x.X), x.X.Type())
				if t, ok := e.safeCompile(c, bf, "boxfact "+x.X.Type().String()); ok {
					st.assume = append(st.assume, t)
					e.applied["boxfact "+x.X.Type().String()]++
					e.extraUses = append(e.extraUses, bf.Uses...)
				}
			}
		}
		e.boxPayload(st, bx, x.X.Type(), e.val(st, x.X))
		if e.sorts.SortOf(x.X.Type()) == "String" { // a boxed string can be read back through strOf
			e.declOnce("(declare-fun strOf (Any) String)")
			st.assume = append(st.assume, fmt.Sprintf("(= (strOf %s) %s)", bx, e.val(st, x.X)))
		}
		st.vals[x] = bx
	case *ssa.TypeAssert:
		if bi, ok := st.boxed[e.val(st, x.X)]; ok {
			if it, isIface := x.AssertedType.Underlying().(*types.Interface); isIface && x.CommaOk {
				okT := "false"
				if types.Implements(bi.Typ, it) {
					okT = "true"
				}
				st.vals[x] = e.val(st, x.X) + "\x00" + okT
				return false
			}
		}
		v := e.val(st, x.X)
		if _, isIface := x.AssertedType.Underlying().(*types.Interface); isIface {
			okT := e.fresh("implements", "Bool")
			if !x.CommaOk {
				e.oblige(st, "assert", okT)
				st.vals[x] = v
			} else {
				st.vals[x] = v + "\x00" + okT
			}
			return false
		}
		tag := "tag_" + sanitize(types.Unalias(x.AssertedType).String())
		e.declOnce(fmt.Sprintf("(declare-const %s Int)", tag))
		okT := fmt.Sprintf("(= (typeof %s) %s)", v, tag)
		valT := fmt.Sprintf("(unboxRef %s)", v)
		if !x.CommaOk {
			e.oblige(st, "assert", okT)
			st.vals[x] = valT
		} else {
			st.vals[x] = valT + "\x00" + okT
		}
	case *ssa.Lookup:
		if e.lookup != nil {
			st.vals[x] = e.lookup(e, st, x)
			return false
		}
		mt, ok := x.X.Type().Underlying().(*types.Map)
		if !ok {
			panic("lookup on string unsupported")
		}
		ks, vs := e.sorts.SortOf(mt.Key()), e.sorts.SortOf(mt.Elem())
		hn := e.sorts.HeapMap(ks, vs)
		hd := e.sorts.HeapMapDom(ks)
		m, k := e.val(st, x.X), e.val(st, x.Index)
		in := fmt.Sprintf("(select (select %s %s) %s)", e.heapSym(st, hd), m, k)
		v := fmt.Sprintf("(ite %s (select (select %s %s) %s) %s)", in, e.heapSym(st, hn), m, k, e.sorts.Zero(mt.Elem()))
		if x.CommaOk {
			st.vals[x] = v + "\x00" + in
		} else {
			st.vals[x] = v
		}
	case *ssa.Defer:
		// deferred calls are not executed: in the units under contract they only close files
		callee := "?"
		if f := x.Call.StaticCallee(); f != nil {
			callee = f.String()
		} else if x.Call.IsInvoke() {
			callee = "invoke " + x.Call.Method.FullName()
		}
		e.applied["deferred call not modelled: "+callee]++
		return false
	case *ssa.RunDefers:
		return false
	case *ssa.MakeClosure:
		f := e.fresh("closure", "Fn")
		st.assume = append(st.assume, fmt.Sprintf("(not (= %s nilFn))", f))
		ci := &ClosureInfo{Fn: x.Fn.(*ssa.Function)}
		for _, b := range x.Bindings {
			ci.Bindings = append(ci.Bindings, e.val(st, b))
			ci.Types = append(ci.Types, b.Type())
		}
		if st.closures == nil {
			st.closures = map[string]*ClosureInfo{}
		}
		st.closures[f] = ci
		st.vals[x] = f
		return false
	case *ssa.Range: // the iterator of a range loop; only abstract loops may follow (Next is outside the subset)
		st.vals[x] = "rangeiter"
		return false
	case *ssa.Panic:
		e.oblige(st, "nopanic", "false")
		e.paths++
		return true
	case *ssa.Extract:
		tup := e.val(st, x.Tuple)
		st.vals[x] = strings.Split(tup, "\x00")[x.Index]
	case *ssa.Call:
		st.vals[x] = e.call(st, x)
	case *ssa.If:
		c := e.val(st, x.Cond)
		if c == "true" || c == "(not false)" {
			e.block(b.Succs[0], b, st)
			return true
		}
		if c == "false" || c == "(not true)" {
			e.block(b.Succs[1], b, st)
			return true
		}
		// a branch whose condition (or its negation) is literally among the path's assumptions is decided
		neg := fmt.Sprintf("(not %s)", c)
		if strings.HasPrefix(c, "(not ") {
			neg = strings.TrimSuffix(strings.TrimPrefix(c, "(not "), ")")
		}
		knownTrue, knownFalse := false, false
		for _, a := range st.assume {
			if a == c {
				knownTrue = true
			}
			if a == neg || a == fmt.Sprintf("(not %s)", c) {
				knownFalse = true
			}
		}
		if knownTrue && !knownFalse {
			e.block(b.Succs[0], b, st)
			return true
		}
		if knownFalse && !knownTrue {
			e.block(b.Succs[1], b, st)
			return true
		}
		t := st.clone()
		t.assume = append(t.assume, c)
		e.block(b.Succs[0], b, t)
		f := st.clone()
		f.assume = append(f.assume, fmt.Sprintf("(not %s)", c))
		e.block(b.Succs[1], b, f)
		return true
	case *ssa.Jump:
		e.block(b.Succs[0], b, st)
		return true
	case *ssa.Return:
		var rs []string
		for _, r := range x.Results {
			rs = append(rs, e.val(st, r))
		}
		if len(st.conts) > 0 {
			k := st.conts[len(st.conts)-1]
			st.conts = st.conts[:len(st.conts)-1]
			k(rs, st)
			return true
		}
		if e.initMode {
			e.finals = append(e.finals, st)
			e.paths++
			return true
		}
		if e.post != nil {
			for i, g := range e.post(e, st, rs) {
				e.oblige(st, fmt.Sprintf("post%d", i), g)
			}
		}
		if e.contract != nil {
			e.contractPost(st, x, rs)
		}
		// frame: nothing that existed at entry changes, except the locations named by assigns clauses (only those
		// fields of those objects) and the heaps named by modifies
		type asg struct {
			ref  string
			root types.Type
			path []int
		}
		assigned := map[string][]asg{}
		if e.contract != nil && len(e.contract.Assigns) > 0 {
			oc := e.newCtx(st)
			oc.old = true
			for _, a := range e.contract.Assigns {
				func() {
					defer func() {
						if r := recover(); r != nil {
							if be, isB := r.(BindingError); isB {
								e.undecided = append(e.undecided, "assigns: "+be.msg)
								return
							}
							panic(r)
						}
					}()
					lv := oc.Lvalue(a.E)
					hn := e.sorts.HeapObj(e.sorts.SortOf(lv.Root))
					assigned[hn] = append(assigned[hn], asg{lv.Ref, lv.Root, lv.Path})
				}()
			}
		}
		if e.contract == nil || !e.contract.NoFrame {
			for _, hn := range e.sorts.HeapNames() {
				cur, ok := st.heap[hn]
				if !ok || cur == hn+"_0" || e.noFrame[hn] {
					continue
				}
				if strings.HasPrefix(hn, "MF_") { // world state: unchanged as a whole
					e.oblige(st, "frame."+hn, fmt.Sprintf("(= %s %s_0)", cur, hn))
					continue
				}
				as := assigned[hn]
				if len(as) == 0 {
					e.oblige(st, "frame."+hn, fmt.Sprintf("(forall ((r Int)) (=> (and (<= 0 r) (< r nextRef0)) (= (select %s r) (select %s_0 r))))", cur, hn))
					continue
				}
				var ne []string
				for _, a := range as {
					ne = append(ne, fmt.Sprintf("(not (= r %s))", a.ref))
				}
				e.oblige(st, "frame."+hn, fmt.Sprintf("(forall ((r Int)) (=> (and (<= 0 r) (< r nextRef0) %s) (= (select %s r) (select %s_0 r))))", strings.Join(ne, " "), cur, hn))
				for i, a := range as { // the assigned object differs from its old value at most in the assigned fields
					want := fmt.Sprintf("(select %s_0 %s)", hn, a.ref)
					for _, b := range as {
						if b.ref == a.ref {
							want = e.update(want, b.root, b.path, e.project(fmt.Sprintf("(select %s %s)", cur, a.ref), b.root, b.path))
						}
					}
					e.oblige(st, fmt.Sprintf("frame.%s.assigned%d", hn, i+1), fmt.Sprintf("(=> (< %s nextRef0) (= (select %s %s) %s))", a.ref, cur, a.ref, want))
				}
			}
		}
		e.paths++
		return true
	default:
		panic(fmt.Sprintf("instr %T %v", ins, ins))
	}
	return false
}

func (e *Exec) call(st *State, c *ssa.Call) string {
	r := e.call0(st, c)
	e.writeBack(st, c)
	return r
}

func (e *Exec) call0(st *State, c *ssa.Call) string {
	var args []string
	for _, a := range c.Call.Args {
		args = append(args, e.val(st, a))
	}
	if bi, ok := c.Call.Value.(*ssa.Builtin); ok {
		switch bi.Name() {
		case "len":
			if e.sorts.SortOf(c.Call.Args[0].Type()) == "String" {
				return fmt.Sprintf("(str.len %s)", args[0])
			}
			if _, isMap := c.Call.Args[0].Type().Underlying().(*types.Map); isMap {
				return fmt.Sprintf("(select %s %s)", e.heapSym(st, e.sorts.HeapMapLen()), args[0])
			}
			return fmt.Sprintf("(len %s)", args[0])
		case "append":
			return e.appendCall(st, c, args)
		case "cap":
			return fmt.Sprintf("(cap %s)", args[0])
		case "copy": // copy(dst, src): min(len dst, len src) elements, encoded with the recursive copyInto function
			dst, src := args[0], args[1]
			el := c.Call.Args[0].Type().Underlying().(*types.Slice).Elem()
			es := e.sorts.SortOf(el)
			if e.sorts.SortOf(c.Call.Args[1].Type()) == "String" {
				panic("copy from a string: out of subset")
			}
			hn := e.sorts.HeapSlice(es)
			h := e.heapSym(st, hn)
			cp := "copyInto_" + sanitize(es)
			if es == "(_ BitVec 8)" {
				e.extraUses = append(e.extraUses, "bytescopy.smt2")
			}
			e.declOnce(fmt.Sprintf("(define-fun-rec %s ((a (Array Int %s)) (at Int) (x (Array Int %s)) (xo Int) (m Int)) (Array Int %s) (ite (<= m 0) a (store (%s a at x xo (- m 1)) (+ at (- m 1)) (select x (+ xo (- m 1))))))", cp, es, es, es, cp))
			n := fmt.Sprintf("(ite (<= (len %s) (len %s)) (len %s) (len %s))", dst, src, dst, src)
			nh := e.fresh(hn, e.sorts.heaps[hn])
			st.assume = append(st.assume, fmt.Sprintf("(= %s (store %s (base %s) (%s (select %s (base %s)) (off %s) (select %s (base %s)) (off %s) %s)))", nh, h, dst, cp, h, dst, dst, h, src, src, n))
			st.heap[hn] = nh
			return n
		}
		panic("builtin " + bi.Name())
	}
	if t, ok := e.reflectPE(st, c); ok {
		return t
	}
	key := ""
	if c.Call.IsInvoke() {
		if rv, ok := st.rvs[c.Call.Value]; ok { // methods of reflect.Type on a statically known type
			switch c.Call.Method.Name() {
			case "Kind":
				return fmt.Sprint(kindOf(rv.Typ))
			case "Field":
				idx := args[0]
				if !isLit(idx) {
					panic("reflect.Type.Field with a non-constant index: out of subset")
				}
				var i int
				fmt.Sscan(idx, &i)
				stt := rv.Typ.Underlying().(*types.Struct)
				sf := c.Type() // reflect.StructField
				srt := e.sorts.SortOf(sf)
				sft := sf.Underlying().(*types.Struct)
				var fs []string
				for k := 0; k < sft.NumFields(); k++ {
					switch sft.Field(k).Name() {
					case "Name":
						fs = append(fs, smtStr(stt.Field(i).Name()))
					case "Tag":
						fs = append(fs, smtStr(stt.Tag(i)))
					default:
						fs = append(fs, e.fresh("sf", e.sorts.SortOf(sft.Field(k).Type())))
					}
				}
				return fmt.Sprintf("(mk_%s %s)", srt, strings.Join(fs, " "))
			}
			panic("reflect.Type method outside the evaluated set: " + c.Call.Method.Name())
		}
		if bi, ok := st.boxed[e.val(st, c.Call.Value)]; ok { // dynamic type known: dispatch statically
			if m := e.fn.Prog.LookupMethod(bi.Typ, c.Call.Method.Pkg(), c.Call.Method.Name()); m != nil {
				if e.cs != nil {
					if fc, ok := e.cs.Funcs[m.String()]; ok {
						e.applied[m.String()]++
						e.staticRecv = bi.Typ
						r := e.applyContract(st, c, fc, append([]string{bi.Term}, args...))
						e.staticRecv = nil
						return r
					}
				}
				if h, ok := e.externs[m.String()]; ok {
					return h(e, st, c, append([]string{bi.Term}, args...))
				}
				panic("no contract for statically dispatched " + m.String())
			}
		}
	}
	if c.Call.IsInvoke() {
		key = e.invokeKey(c)
		args = append([]string{e.val(st, c.Call.Value)}, args...)
	} else if f := c.Call.StaticCallee(); f != nil {
		key = f.String()
	} else if mc, ok := c.Call.Value.(*ssa.MakeClosure); ok {
		key = mc.Fn.String()
	} else {
		key = "dynamic:" + c.Call.Value.Type().String()
	}
	if e.contract != nil {
		if len(e.contract.AtCall[key]) > 0 {
			if e.atCallSeen == nil {
				e.atCallSeen = map[string]bool{}
			}
			e.atCallSeen[key] = true
		}
		for i, cl := range e.contract.AtCall[key] {
			cc := e.newCtx(st)
			// the callee's parameter names stand for the arguments of this call (they shadow the caller's names)
			var pnames []string
			var ptypes []types.Type
			if fc, ok := e.cs.Funcs[key]; ok && e.cs != nil && len(fc.Params) > 0 {
				pnames = fc.Params
			} else if f := c.Call.StaticCallee(); f != nil {
				for _, p := range f.Params {
					pnames = append(pnames, p.Name())
				}
			}
			if sig := c.Call.Signature(); sig != nil {
				if c.Call.IsInvoke() || sig.Recv() != nil {
					if c.Call.IsInvoke() {
						ptypes = append(ptypes, c.Call.Value.Type())
					} else if sig.Recv() != nil {
						ptypes = append(ptypes, sig.Recv().Type())
					}
				}
				for k := 0; k < sig.Params().Len(); k++ {
					ptypes = append(ptypes, sig.Params().At(k).Type())
				}
			}
			if len(pnames) == len(args) && len(ptypes) == len(args) {
				for k, n := range pnames {
					if n != "" && n != "_" {
						cc.vars[n] = cc.val(args[k], ptypes[k])
					}
				}
			}
			if t, ok := e.safeCompile(cc, cl, "atcall "+key); ok {
				e.obligeCl(st, fmt.Sprintf("at.%s.%d", shortName(key), i+1), t, &e.contract.AtCall[key][i])
			}
		}
	}
	if e.cs != nil {
		if fc, ok := e.cs.Funcs[key]; ok {
			if e.applied == nil {
				e.applied = map[string]int{}
			}
			e.applied[key]++
			r := e.applyContract(st, c, fc, args)
			if fc.NoReturn {
				st.assume = append(st.assume, "false")
			}
			k := st.snaps["callno:"+fc.Name]
			for i, a := range args { // arguments of the k-th call, for callarg(); call number 0 names the latest call so far
				st.snaps[fmt.Sprintf("arg:%s#%s.%d", key, k, i)] = a
				st.snaps[fmt.Sprintf("arg:%s#0.%d", key, i)] = a
			}
			for i, part := range strings.Split(r, "\x00") {
				if part != "" && i < c.Call.Signature().Results().Len() {
					v := e.sorts.SortOf(c.Call.Signature().Results().At(i).Type()) + "\x01" + part
					st.snaps[fmt.Sprintf("res:%s#%s.%d", key, k, i)] = v
					st.snaps[fmt.Sprintf("res:%s#0.%d", key, i)] = v
				}
			}
			return r
		}
	}
	if h, ok := e.externs[key]; ok {
		return h(e, st, c, args)
	}
	if strings.HasPrefix(key, "github.com/wokdav/gopki/logging.") || strings.HasSuffix(key, ".init") {
		return ""
	}
	if e.initMode || e.lenient { // unmodelled external: fresh results, listed
		var rs []string
		res := c.Call.Signature().Results()
		for i := 0; i < res.Len(); i++ {
			r := e.fresh("ext", e.sorts.SortOf(res.At(i).Type()))
			st.assume = append(st.assume, e.wellFormedAny(r, res.At(i).Type())...)
			rs = append(rs, r)
		}
		e.unmodelled = append(e.unmodelled, key)
		return strings.Join(rs, "\x00")
	}
	panic("no contract for call " + key)
}

// append(s, xs...) where xs has statically known length n (varargs array pattern)
func (e *Exec) appendCall(st *State, c *ssa.Call, args []string) string {
	s, xs := args[0], args[1]
	sl, ok := c.Call.Args[1].(*ssa.Slice)
	if !ok {
		return e.appendDyn(st, c, s, xs)
	}
	n := int(sl.X.Type().Underlying().(*types.Pointer).Elem().Underlying().(*types.Array).Len())
	if n != 1 {
		panic("append n != 1")
	}
	el := c.Type().Underlying().(*types.Slice).Elem()
	es := e.sorts.SortOf(el)
	hn := e.sorts.HeapSlice(es)
	h := e.heapSym(st, hn)
	x0 := fmt.Sprintf("(select (select %s (base %s)) (off %s))", h, xs, xs)
	// Both cases write the same array value (old view with x stored at len) at the result's base:
	// in place the base is s's, on reallocation it is a fresh reference with unconstrained larger capacity.
	inplace := fmt.Sprintf("(<= (+ (len %s) 1) (cap %s))", s, s)
	r := e.alloc(st)
	capf := e.fresh("cap", "Int")
	st.assume = append(st.assume, fmt.Sprintf("(>= %s (+ (len %s) 1))", capf, s))
	bse := fmt.Sprintf("(ite %s (base %s) %s)", inplace, s, r)
	cp := fmt.Sprintf("(ite %s (cap %s) %s)", inplace, s, capf)
	res := e.fresh("app", "Slice")
	st.assume = append(st.assume, fmt.Sprintf("(= %s (mkslice %s (off %s) (+ (len %s) 1) %s))", res, bse, s, s, cp))
	nh := e.fresh(hn, e.sorts.heaps[hn])
	oldarr := fmt.Sprintf("(select %s (base %s))", h, s)
	st.assume = append(st.assume, fmt.Sprintf("(= %s (store %s %s (store %s (+ (off %s) (len %s)) %s)))", nh, h, bse, oldarr, s, s, x0))
	st.heap[hn] = nh
	return res
}

// append(s, xs...) with a tail of symbolic length: the new backing array is copyInto(old view, off+len, xs array, xs off, len xs)
func (e *Exec) appendDyn(st *State, c *ssa.Call, s, xs string) string {
	el := c.Type().Underlying().(*types.Slice).Elem()
	es := e.sorts.SortOf(el)
	hn := e.sorts.HeapSlice(es)
	h := e.heapSym(st, hn)
	cp := "copyInto_" + sanitize(es)
	inPrelude := false
	if strings.Contains(e.preludeText, "define-fun-rec "+cp+" ") {
		inPrelude = true
	}
	if !inPrelude {
		e.declOnce(fmt.Sprintf("(define-fun-rec %s ((a (Array Int %s)) (at Int) (x (Array Int %s)) (xo Int) (m Int)) (Array Int %s) (ite (<= m 0) a (store (%s a at x xo (- m 1)) (+ at (- m 1)) (select x (+ xo (- m 1))))))", cp, es, es, es, cp))
	}
	newLen := fmt.Sprintf("(+ (len %s) (len %s))", s, xs)
	inplace := fmt.Sprintf("(<= %s (cap %s))", newLen, s)
	r := e.alloc(st)
	capf := e.fresh("cap", "Int")
	st.assume = append(st.assume, fmt.Sprintf("(>= %s %s)", capf, newLen))
	bse := fmt.Sprintf("(ite %s (base %s) %s)", inplace, s, r)
	cpT := fmt.Sprintf("(ite %s (cap %s) %s)", inplace, s, capf)
	res := e.fresh("app", "Slice")
	st.assume = append(st.assume, fmt.Sprintf("(= %s (mkslice %s (off %s) %s %s))", res, bse, s, newLen, cpT))
	nh := e.fresh(hn, e.sorts.heaps[hn])
	st.assume = append(st.assume, fmt.Sprintf("(= %s (store %s %s (%s (select %s (base %s)) (+ (off %s) (len %s)) (select %s (base %s)) (off %s) (len %s))))", nh, h, bse, cp, h, s, s, s, h, xs, xs, xs))
	st.heap[hn] = nh
	return res
}

var kindNum = map[string]int{"bool": 1, "int": 2, "string": 24, "struct": 25, "slice": 23, "pointer": 22, "array": 17, "interface": 20, "map": 21}

func kindOf(t types.Type) int {
	switch u := t.Underlying().(type) {
	case *types.Basic:
		switch {
		case u.Info()&types.IsBoolean != 0:
			return 1
		case u.Info()&types.IsString != 0:
			return 24
		case u.Kind() == types.Int:
			return 2
		}
	case *types.Struct:
		return 25
	case *types.Slice:
		return 23
	case *types.Pointer:
		return 22
	case *types.Interface:
		return 20
	}
	panic("kindOf " + t.String())
}

// reflectPE evaluates the handful of reflect operations used by gopki when the dynamic type is known.
func (e *Exec) reflectPE(st *State, c *ssa.Call) (string, bool) {
	f := c.Call.StaticCallee()
	if f == nil || f.Pkg == nil || f.Pkg.Pkg.Path() != "reflect" {
		return "", false
	}
	arg := func(i int) ssa.Value { return c.Call.Args[i] }
	switch f.String() {
	case "reflect.ValueOf":
		bi, ok := st.boxed[e.val(st, arg(0))]
		if !ok {
			panic("reflect.ValueOf on a value of unknown dynamic type: out of subset")
		}
		st.rvs[c] = &RV{Valid: true, Typ: bi.Typ, Term: bi.Term}
		return "rv", true
	case "reflect.TypeOf":
		bi, ok := st.boxed[e.val(st, arg(0))]
		if !ok {
			panic("reflect.TypeOf on a value of unknown dynamic type: out of subset")
		}
		st.rvs[c] = &RV{Valid: true, Typ: bi.Typ, Term: bi.Term}
		return "rt", true
	case "(reflect.Value).Field":
		rv := st.rvs[arg(0)]
		idx := e.val(st, arg(1))
		if !isLit(idx) {
			panic("reflect Field with a non-constant index: out of subset")
		}
		var i int
		fmt.Sscan(idx, &i)
		stt := rv.Typ.Underlying().(*types.Struct)
		st.rvs[c] = &RV{Valid: true, Typ: stt.Field(i).Type(), Term: e.project(rv.Term, rv.Typ, []int{i})}
		return "rv", true
	case "(reflect.Value).Interface":
		rv := st.rvs[arg(0)]
		if !rv.Valid {
			panic("reflect Interface on an invalid Value: out of subset")
		}
		bx := e.fresh("boxed", "Any")
		st.boxed[bx] = &BoxInfo{Typ: rv.Typ, Term: rv.Term}
		tag := "tag_" + sanitize(types.Unalias(rv.Typ).String())
		e.declOnce(fmt.Sprintf("(declare-const %s Int)", tag))
		st.assume = append(st.assume, fmt.Sprintf("(and (= (typeof %s) %s) (not (= %s nilAny)))", bx, tag, bx))
		if _, isPtr := rv.Typ.Underlying().(*types.Pointer); isPtr {
			st.assume = append(st.assume, fmt.Sprintf("(= (unboxRef %s) %s)", bx, rv.Term))
		}
		e.boxPayload(st, bx, rv.Typ, rv.Term)
		return bx, true
	case "(reflect.Value).NumField":
		rv := st.rvs[arg(0)]
		stt, ok := rv.Typ.Underlying().(*types.Struct)
		if !ok {
			panic("reflect NumField on a non-struct: out of subset")
		}
		return fmt.Sprint(stt.NumFields()), true
	case "(reflect.Value).IsNil":
		rv := st.rvs[arg(0)]
		if _, ok := rv.Typ.Underlying().(*types.Pointer); !ok {
			panic("reflect IsNil on a non-pointer: out of subset")
		}
		return fmt.Sprintf("(= %s 0)", rv.Term), true
	case "(reflect.Value).Elem":
		rv := st.rvs[arg(0)]
		pt, ok := rv.Typ.Underlying().(*types.Pointer)
		if !ok {
			panic("reflect Elem on a non-pointer: out of subset")
		}
		// Elem of a nil pointer is the invalid Value, whose Interface() panics: demanded not to happen
		e.oblige(st, "nil", fmt.Sprintf("(not (= %s 0))", rv.Term))
		hn := e.sorts.HeapObj(e.sorts.SortOf(pt.Elem()))
		st.rvs[c] = &RV{Valid: true, Typ: pt.Elem(), Term: fmt.Sprintf("(select %s %s)", e.heapSym(st, hn), rv.Term)}
		return "rv", true
	case "(reflect.StructTag).Lookup", "(reflect.StructTag).Get":
		tagT := e.val(st, arg(0))
		lit, err := strconv.Unquote(smtToGo(tagT))
		if err != nil {
			panic("struct tag is not a literal: " + tagT)
		}
		v, ok := parseTag(lit, constant.StringVal(arg(1).(*ssa.Const).Value))
		if f.Name() == "Get" {
			return smtStr(v), true
		}
		return smtStr(v) + "\x00" + fmt.Sprint(ok), true
	case "(reflect.Value).Kind":
		rv := st.rvs[arg(0)]
		if !rv.Valid {
			return "0", true
		}
		return fmt.Sprint(kindOf(rv.Typ)), true
	case "(reflect.Value).FieldByName":
		rv := st.rvs[arg(0)]
		name := constant.StringVal(arg(1).(*ssa.Const).Value)
		stt := rv.Typ.Underlying().(*types.Struct)
		for i := 0; i < stt.NumFields(); i++ {
			if stt.Field(i).Name() == name {
				st.rvs[c] = &RV{Valid: true, Typ: stt.Field(i).Type(), Term: e.project(rv.Term, rv.Typ, []int{i})}
				return "rv", true
			}
		}
		st.rvs[c] = &RV{}
		return "rv", true
	case "(reflect.Value).String", "(reflect.Value).Bool":
		return st.rvs[arg(0)].Term, true
	case "(reflect.Value).IsZero":
		rv := st.rvs[arg(0)]
		if _, ok := rv.Typ.Underlying().(*types.Slice); ok {
			return fmt.Sprintf("(= (base %s) 0)", rv.Term), true
		}
		return fmt.Sprintf("(= %s %s)", rv.Term, e.sorts.Zero(rv.Typ)), true
	}
	panic("reflect operation outside the evaluated set: " + f.String())
}

// boxPayload: the struct value inside an interface value is a function of the interface value (payload_<sort>), so that
// a contract can speak about the content of a boxed value that was stored in a slice or returned (payload(x, "T")).
func (e *Exec) boxPayload(st *State, bx string, t types.Type, term string) {
	if _, ok := t.Underlying().(*types.Struct); !ok {
		return
	}
	srt := e.sorts.SortOf(t)
	e.declOnce(fmt.Sprintf("(declare-fun payload_%s (Any) %s)", srt, srt))
	st.assume = append(st.assume, fmt.Sprintf("(= (payload_%s %s) %s)", srt, bx, term))
}

func isLit(t string) bool {
	if t == "" {
		return false
	}
	for _, ch := range t {
		if ch < '0' || ch > '9' {
			return false
		}
	}
	return true
}

// invokeKey: interface method calls are keyed "invoke:<pkg.Iface>.<Method>" when such a contract exists, else "invoke:<Method>".
func (e *Exec) invokeKey(c *ssa.Call) string {
	m := c.Call.Method.Name()
	vt := types.Unalias(c.Call.Value.Type())
	if n, ok := vt.(*types.Named); ok && n.Obj().Pkg() != nil {
		k := "invoke:" + n.Obj().Pkg().Path() + "." + n.Obj().Name() + "." + m
		if e.cs != nil {
			if _, ok := e.cs.Funcs[k]; ok {
				return k
			}
		}
	}
	if n, ok := vt.(*types.Named); ok && n.Obj().Pkg() == nil { // error
		k := "invoke:" + n.Obj().Name() + "." + m
		if e.cs != nil {
			if _, ok := e.cs.Funcs[k]; ok {
				return k
			}
		}
	}
	return "invoke:" + m
}

// shortName abbreviates an SSA function name for obligation names.
func shortName(n string) string {
	n = strings.ReplaceAll(n, "github.com/wokdav/gopki/generator/", "")
	n = strings.ReplaceAll(n, "github.com/wokdav/gopki/", "")
	return n
}

// ---- contracts from the contract language ----

func (e *Exec) newCtx(st *State) *CCtx {
	return &CCtx{e: e, st: st, fn: e.fn, vars: map[string]CVal{}, loopHdr: func(ord int) int { return e.headers[ord-1] }}
}

func (e *Exec) safeCompile(c *CCtx, cl Clause, what string) (string, bool) {
	var out string
	ok := true
	func() {
		defer func() {
			if r := recover(); r != nil {
				if be, isB := r.(BindingError); isB {
					e.undecided = append(e.undecided, fmt.Sprintf("%s: %s: %s", what, cl.Src, be.msg))
					ok = false
					return
				}
				panic(r)
			}
		}()
		out = c.Compile(cl.E).T
	}()
	return out, ok
}

func (e *Exec) loopOrdinal(b *ssa.BasicBlock) int {
	for i, h := range e.headers {
		if h == b.Index {
			return i + 1
		}
	}
	return 0
}

func (e *Exec) contractLoop(b *ssa.BasicBlock) *LoopSpec {
	ord := e.loopOrdinal(b)
	cls := e.contract.Loops[ord]
	mk := func(v *Env) *CCtx {
		c := e.newCtx(v.st)
		c.header = b
		c.phi = v.phi
		c.snapKey = fmt.Sprint(b.Index)
		return c
	}
	return &LoopSpec{
		Snap: func(v *Env) map[string]string {
			out := map[string]string{}
			c := mk(v)
			all := append([]Clause{}, cls...)
			// entry(<this loop>, e) used in postconditions, ghost results and call-site assertions
			var outer []Clause
			outer = append(outer, e.contract.Ensures...)
			for _, g := range e.contract.GhostRets {
				outer = append(outer, g.Cl)
			}
			for _, acs := range e.contract.AtCall {
				outer = append(outer, acs...)
			}
			for _, lcls := range e.contract.Loops {
				outer = append(outer, lcls...)
			}
			for _, cl := range outer {
				var es []Expr
				collectEntriesOrd(cl.E, ord, &es)
				for _, ex := range es {
					all = append(all, Clause{E: Call{"entry", []Expr{ex}}})
				}
			}
			for _, cl := range all {
				var es []Expr
				collectEntries(cl.E, &es)
				for _, ex := range es {
					func() {
						defer func() {
							if r := recover(); r != nil {
								if _, isB := r.(BindingError); !isB {
									panic(r)
								}
							}
						}()
						cv := c.Compile(ex)
						out[fmt.Sprintf("%v", ex)] = cv.Sort + "\x01" + cv.T
					}()
				}
			}
			return out
		},
		Inv: func(v *Env) []string {
			var out []string
			c := mk(v)
			for i, cl := range cls {
				if t, ok := e.safeCompile(c, cl, fmt.Sprintf("loop %d invariant %d", ord, i+1)); ok {
					out = append(out, t)
				} else {
					out = append(out, "true")
				}
			}
			return out
		},
	}
}

func (e *Exec) resultVals(c *CCtx, names []string, rs []string, tys *types.Tuple) {
	for i, n := range names {
		if i < len(rs) && i < tys.Len() {
			c.vars[n] = c.val(rs[i], tys.At(i).Type())
		}
	}
}

func (e *Exec) contractPost(st *State, ret *ssa.Return, rs []string) {
	c := e.newCtx(st)
	e.resultVals(c, e.contract.Returns, rs, e.fn.Signature.Results())
	for _, g := range e.contract.GhostRets { // not bound on paths where the expression does not exist (guard its uses)
		n0 := len(e.undecided)
		if t, ok := e.safeCompile(c, g.Cl, "ghostret "+g.Name); ok {
			c.vars[g.Name] = e.ghostVal(g, t)
		}
		e.undecided = e.undecided[:n0]
	}
	for i, cl := range e.contract.Ensures {
		if t, ok := e.safeCompile(c, cl, fmt.Sprintf("ensures %d", i+1)); ok {
			e.obligeCl(st, fmt.Sprintf("post%d", i+1), t, &e.contract.Ensures[i])
		}
	}
}

func (e *Exec) contractPre(st *State) {
	c := e.newCtx(st)
	for _, p := range e.fn.Params {
		e.watches = append(e.watches, [2]string{p.Name(), st.vals[p]})
	}
	for i, cl := range e.contract.Watch {
		if t, ok := e.safeCompile(c, cl, fmt.Sprintf("watch %d", i+1)); ok {
			e.watches = append(e.watches, [2]string{cl.Src, t})
		}
	}
	if len(e.contract.Assume) > 0 {
		e.applied["assume clause of "+e.contract.Name]++
	}
	for i, cl := range append(append(append([]Clause{}, e.contract.Requires...), e.contract.Given...), e.contract.Assume...) {
		if t, ok := e.safeCompile(c, cl, fmt.Sprintf("requires %d", i+1)); ok {
			st.assume = append(st.assume, t)
		}
	}
}

// applyContract uses a callee's contract at a call site: check requires, make fresh results, assume ensures.
// ghostVal: a ghost result is declared with an SMT sort or with a Go type ("gopki/generator/cert.Certificate").
func (e *Exec) ghostVal(g GhostRet, term string) CVal {
	if strings.Contains(g.Sort, "/") || (strings.Contains(g.Sort, ".") && !strings.HasPrefix(g.Sort, "(")) {
		if t := e.prog.NamedType(expandType(g.Sort)); t != nil {
			return CVal{T: term, Sort: e.sorts.SortOf(t), GoT: t}
		}
		bindFail("ghostret %s: unknown type %s", g.Name, g.Sort)
	}
	return CVal{T: term, Sort: g.Sort}
}

func (fc *FuncContract) usesFresh() bool {
	for _, cl := range fc.Ensures {
		if strings.Contains(cl.Src, "fresh(") {
			return true
		}
	}
	return false
}

func (e *Exec) applyContract(st *State, call *ssa.Call, fc *FuncContract, args []string) string {
	c := e.newCtx(st)
	c.fn = nil
	if f := call.Call.StaticCallee(); f != nil && f.Pkg != nil {
		c.pkg = f.Pkg.Pkg
	}
	if c.pkg == nil && fc.Pkg != "" {
		if p := e.prog.Package(fc.Pkg); p != nil {
			c.pkg = p.Pkg
		}
	}
	params := fc.Params
	if len(params) == 0 && !fc.Trusted {
		if f := e.prog.Func(fc.Name); f != nil {
			for _, p := range f.Params {
				params = append(params, p.Name())
			}
		}
	}
	var ptys []types.Type
	if call.Call.IsInvoke() {
		if e.staticRecv != nil { // interface call dispatched statically: the receiver is the unboxed concrete value
			ptys = append(ptys, e.staticRecv)
		} else {
			ptys = append(ptys, call.Call.Value.Type())
		}
	}
	sig := call.Call.Signature()
	if !call.Call.IsInvoke() && sig.Recv() != nil && len(args) == sig.Params().Len()+1 {
		ptys = append(ptys, sig.Recv().Type())
	}
	for i := 0; i < sig.Params().Len(); i++ {
		ptys = append(ptys, sig.Params().At(i).Type())
	}
	if len(ptys) == len(args)-1 { // statically dispatched invoke: receiver is the unboxed value
		ptys = append([]types.Type{nil}, ptys...)
	}
	for i, n := range params {
		if i < len(args) {
			if i < len(ptys) && ptys[i] != nil {
				c.vars[n] = c.val(args[i], ptys[i])
			} else {
				c.vars[n] = CVal{T: args[i], Sort: "?"}
			}
		}
	}
	c.oldHeaps = map[string]string{}
	for k, v := range st.heap {
		c.oldHeaps[k] = v
	}
	for i, cl := range fc.Requires {
		if t, ok := e.safeCompile(c, cl, "requires of "+fc.Name); ok {
			e.obligeCl(st, fmt.Sprintf("pre@%s.%d", shortName(fc.Name), i+1), t, &fc.Requires[i])
		}
	}
	if fc.usesFresh() { // results declared fresh lie between the allocation counter before and after the call
		nn := e.fresh("nextRef", "Int")
		st.assume = append(st.assume, fmt.Sprintf("(>= %s %s)", nn, st.nextRef))
		c.freshLo, c.freshHi = st.nextRef, nn
		st.nextRef = nn
	}
	cnt := 1
	if v, ok := st.snaps["callno:"+fc.Name]; ok {
		fmt.Sscan(v, &cnt)
		cnt++
	}
	st.snaps["callno:"+fc.Name] = fmt.Sprint(cnt)
	c.vars["callno"] = CVal{T: fmt.Sprint(cnt), Sort: "Int"}
	for i := range args { // link boxed arguments to their deep value at call time
		if bi, ok := st.boxed[args[i]]; ok {
			e.declOnce("(declare-fun deepOf (Any) Deep)")
			st.assume = append(st.assume, fmt.Sprintf("(= (deepOf %s) %s)", args[i], c.deepTerm(c.val(bi.Term, bi.Typ))))
		}
	}
	for _, hn := range append(append([]string{}, fc.Havoc...), fc.Modifies...) {
		if mf, ok := e.modelFields[hn]; ok {
			hn = mf
		}
		if _, ok := e.sorts.heaps[hn]; !ok {
			e.undecided = append(e.undecided, "havoc of "+fc.Name+": unknown heap "+hn)
			continue
		}
		st.heap[hn] = e.fresh(hn, e.sorts.heaps[hn])
	}
	for _, as := range fc.Assigns { // assigns loc: the location gets an unconstrained new value, nothing else in its heap changes
		func() {
			defer func() {
				if r := recover(); r != nil {
					if be, isB := r.(BindingError); isB {
						e.undecided = append(e.undecided, "assigns of "+fc.Name+": "+be.msg)
						return
					}
					panic(r)
				}
			}()
			lv := c.Lvalue(as.E)
			nv := e.fresh("asg", e.sorts.SortOf(lv.Typ))
			st.assume = append(st.assume, e.wellFormedAny(nv, lv.Typ)...)
			e.store(st, &Ptr{Ref: lv.Ref, Root: lv.Root, Path: lv.Path}, nv)
		}()
	}
	for _, up := range fc.Updates { // update Field(key) := value
		mf := e.modelFields[up.Field]
		oldc := *c
		oldc.old = true
		key := c.Compile(up.Key).T
		val := oldc.Compile(up.Val).T
		h := e.heapSym(st, mf)
		nh := e.fresh(mf, e.sorts.heaps[mf])
		st.assume = append(st.assume, fmt.Sprintf("(= %s (store %s %s %s))", nh, h, key, val))
		st.heap[mf] = nh
	}
	var rs []string
	res := sig.Results()
	for i := 0; i < res.Len(); i++ {
		t := res.At(i).Type()
		srt := e.sorts.SortOf(t)
		r := e.fresh("r", srt)
		st.assume = append(st.assume, e.wellFormedAny(r, t)...)
		rs = append(rs, r)
	}
	e.resultVals(c, fc.Returns, rs, res)
	for _, g := range fc.GhostRets {
		gv := e.ghostVal(g, "")
		gt := e.fresh("ghost_"+g.Name, gv.Sort)
		gv.T = gt
		c.vars[g.Name] = gv
		// whether the ghost result exists depends on the path the callee took: unknown here, constrained only by
		// what the callee's clauses say about bound(NAME)
		if c.boundTerm == nil {
			c.boundTerm = map[string]string{}
		}
		c.boundTerm[g.Name] = e.fresh("ghostbound_"+g.Name, "Bool")
		st.snaps[fmt.Sprintf("ghost:%s#%d.%s", fc.Name, cnt, g.Name)] = gv.Sort + "\x01" + gt
	}
	for _, cl := range append(append([]Clause{}, fc.Ensures...), fc.Abstracts...) {
		if t, ok := e.safeCompile(c, cl, "ensures of "+fc.Name); ok {
			st.assume = append(st.assume, t)
		}
	}
	if len(fc.Abstracts) > 0 {
		e.applied["abstraction clause of "+fc.Name]++
	}
	hs := map[string]string{}
	for k, v := range st.heap {
		hs[k] = v
	}
	if st.callHeaps == nil {
		st.callHeaps = map[string]map[string]string{}
	}
	st.callHeaps[fmt.Sprintf("%s#%d", fc.Name, cnt)] = hs
	return strings.Join(rs, "\x00")
}

// shapeFacts: state-independent facts about the slices inside a loaded value.
func (e *Exec) shapeFacts(term string, t types.Type, depth int) []string {
	if depth > 3 {
		return nil
	}
	switch u := t.Underlying().(type) {
	case *types.Slice:
		return []string{fmt.Sprintf("(and (<= 0 (base %s)) (<= 0 (off %s)) (<= 0 (len %s)) (<= (len %s) (cap %s)) (=> (= (base %s) 0) (= (cap %s) 0)))", term, term, term, term, term, term, term)}
	case *types.Struct:
		if n, ok := t.(*types.Named); ok && e.sorts.opaque(n, u) {
			return nil
		}
		var out []string
		for i := 0; i < u.NumFields(); i++ {
			out = append(out, e.shapeFacts(e.project(term, t, []int{i}), u.Field(i).Type(), depth+1)...)
		}
		return out
	}
	return nil
}

// wellFormedAny: results of calls are valid but not necessarily pre-existing
func (e *Exec) wellFormedAny(term string, t types.Type) []string {
	switch t.Underlying().(type) {
	case *types.Slice:
		return []string{fmt.Sprintf("(and (<= 0 (base %s)) (<= 0 (off %s)) (<= 0 (len %s)) (<= (len %s) (cap %s)) (=> (= (base %s) 0) (= (cap %s) 0)))", term, term, term, term, term, term, term)}
	case *types.Pointer:
		return []string{fmt.Sprintf("(<= 0 %s)", term)}
	}
	return nil
}

// onlyLiteralUses: the array is only indexed for stores and sliced once (the SSA shape of literals and variadic calls)
func onlyLiteralUses(a *ssa.Alloc) bool {
	for _, r := range *a.Referrers() {
		switch u := r.(type) {
		case *ssa.IndexAddr:
			for _, rr := range *u.Referrers() {
				if s, ok := rr.(*ssa.Store); !ok || s.Addr != u {
					return false
				}
			}
		case *ssa.Slice:
			if u.Low != nil || u.High != nil {
				return false
			}
		case *ssa.DebugRef:
		default:
			return false
		}
	}
	return true
}

func isStruct(t types.Type) bool { _, ok := t.Underlying().(*types.Struct); return ok }

// applySimple applies a trusted contract to a built-in operation (conversion, allocation).
func (e *Exec) applySimple(st *State, fc *FuncContract, args []string, ptys []types.Type, res types.Type) string {
	e.applied[fc.Name]++
	c := e.newCtx(st)
	c.fn = nil
	for i, n := range fc.Params {
		c.vars[n] = c.val(args[i], ptys[i])
	}
	r := ""
	if res != nil {
		r = e.fresh("r", e.sorts.SortOf(res))
		st.assume = append(st.assume, e.wellFormedAny(r, res)...)
		if len(fc.Returns) > 0 {
			c.vars[fc.Returns[0]] = c.val(r, res)
		}
	}
	for _, cl := range fc.Ensures {
		if t, ok := e.safeCompile(c, cl, "ensures of "+fc.Name); ok {
			st.assume = append(st.assume, t)
		}
	}
	return r
}

// sliceExpr: s[a:b] on slices, strings and pointers to arrays.
func (e *Exec) sliceExpr(st *State, x *ssa.Slice) {
	lo := "0"
	if x.Low != nil {
		lo = e.val(st, x.Low)
	}
	switch t := x.X.Type().Underlying().(type) {
	case *types.Basic: // string
		s := e.val(st, x.X)
		hi := fmt.Sprintf("(str.len %s)", s)
		if x.High != nil {
			hi = e.val(st, x.High)
		}
		e.oblige(st, "bounds", fmt.Sprintf("(and (<= 0 %s) (<= %s %s) (<= %s (str.len %s)))", lo, lo, hi, hi, s))
		e.declOnce("(declare-fun strSlice (String Int Int) String)")
		st.vals[x] = fmt.Sprintf("(strSlice %s %s %s)", s, lo, hi)
	case *types.Slice:
		s := e.val(st, x.X)
		hi := fmt.Sprintf("(len %s)", s)
		if x.High != nil {
			hi = e.val(st, x.High)
		}
		e.oblige(st, "bounds", fmt.Sprintf("(and (<= 0 %s) (<= %s %s) (<= %s (cap %s)))", lo, lo, hi, hi, s))
		e.oblige(st, "reslice", fmt.Sprintf("(<= %s (len %s))", hi, s))
		st.vals[x] = fmt.Sprintf("(mkslice (base %s) (+ (off %s) %s) (- %s %s) (- (cap %s) %s))", s, s, lo, hi, lo, s, lo)
	case *types.Pointer: // pointer to array
		n := t.Elem().Underlying().(*types.Array).Len()
		hi := fmt.Sprint(n)
		if x.High != nil {
			hi = e.val(st, x.High)
		}
		e.oblige(st, "bounds", fmt.Sprintf("(and (<= 0 %s) (<= %s %s) (<= %s %d))", lo, lo, hi, hi, n))
		st.vals[x] = fmt.Sprintf("(mkslice %s %s (- %s %s) (- %d %s))", e.val(st, x.X), lo, hi, lo, n, lo)
	default:
		panic("slice of " + x.X.Type().String())
	}
}

// tryMerge handles "if c { pure } [else { pure }]" without forking: the branch blocks are executed on clones
// (their obligations are emitted under the branch condition), and execution continues once at the join with
// ite-merged phi values. Applies only when the branches leave heaps, nextRef and the continuation stack untouched.
func (e *Exec) tryMerge(st *State, b *ssa.BasicBlock, iff *ssa.If) bool {
	s0, s1 := b.Succs[0], b.Succs[1]
	branchTo := func(x *ssa.BasicBlock) *ssa.BasicBlock { // x is a single-pred block ending in a jump
		if len(x.Preds) != 1 || len(x.Succs) != 1 {
			return nil
		}
		if _, ok := x.Instrs[len(x.Instrs)-1].(*ssa.Jump); !ok {
			return nil
		}
		return x.Succs[0]
	}
	var join *ssa.BasicBlock
	var tBlk, eBlk *ssa.BasicBlock
	switch {
	case branchTo(s0) != nil && branchTo(s0) == s1:
		join, tBlk = s1, s0
	case branchTo(s1) != nil && branchTo(s1) == s0:
		join, eBlk = s0, s1
	case branchTo(s0) != nil && branchTo(s0) == branchTo(s1):
		join, tBlk, eBlk = branchTo(s0), s0, s1
	default:
		return false
	}
	if e.isHeader(join) || len(join.Preds) != 2 || b.Parent() != e.fn {
		return false
	}
	for _, blk := range []*ssa.BasicBlock{tBlk, eBlk} {
		if blk == nil {
			continue
		}
		for _, ins := range blk.Instrs {
			if e.dead[ins] {
				continue
			}
			switch x := ins.(type) {
			case *ssa.Store, *ssa.MapUpdate, *ssa.If, *ssa.Return, *ssa.Panic, *ssa.Alloc, *ssa.MakeSlice, *ssa.MakeMap, *ssa.Defer, *ssa.Phi:
				return false
			case *ssa.Call:
				if f := x.Call.StaticCallee(); e.shouldInline(f, 0) {
					return false
				}
				key := ""
				if x.Call.IsInvoke() {
					key = e.invokeKey(x)
				} else if f := x.Call.StaticCallee(); f != nil {
					key = f.String()
				}
				fc := (*FuncContract)(nil)
				if e.cs != nil {
					fc = e.cs.Funcs[key]
				}
				if fc == nil || fc.NoReturn || len(fc.Havoc) > 0 || len(fc.Updates) > 0 || len(fc.Assigns) > 0 || len(fc.Modifies) > 0 || fc.usesFresh() {
					return false
				}
			}
		}
	}
	cond := e.val(st, iff.Cond)
	if cond == "true" || cond == "false" {
		return false
	}
	run := func(blk *ssa.BasicBlock, c string) *State {
		cl := st.clone()
		cl.assume = append(cl.assume, c)
		if blk != nil {
			cl.trace = append(cl.trace, blk.Index)
			for _, ins := range blk.Instrs[:len(blk.Instrs)-1] {
				if e.dead[ins] {
					continue
				}
				e.instr(cl, blk, ins)
			}
		}
		return cl
	}
	tS, eS := run(tBlk, cond), run(eBlk, "(not "+cond+")")
	for _, cl := range []*State{tS, eS} { // the branches must not have changed shared state
		if cl.nextRef != st.nextRef {
			return false
		}
		for k, v := range cl.heap {
			if st.heap[k] != v && !(st.heap[k] == "" && v == k+"_0") {
				return false
			}
		}
	}
	// guarded assumptions and values of the branches
	base := len(st.assume) + 1
	for i, cl := range []*State{tS, eS} {
		g := cond
		if i == 1 {
			g = "(not " + cond + ")"
		}
		for _, a := range cl.assume[base:] {
			st.assume = append(st.assume, fmt.Sprintf("(=> %s %s)", g, a))
		}
		for k, v := range cl.vals {
			if _, ok := st.vals[k]; !ok {
				st.vals[k] = v
			}
		}
		for k, v := range cl.heap {
			if _, ok := st.heap[k]; !ok {
				st.heap[k] = v
			}
		}
		for k, v := range cl.snaps {
			if _, ok := st.snaps[k]; !ok {
				st.snaps[k] = v
			}
		}
	}
	// phis of the join
	tPred, ePred := b, b
	if tBlk != nil {
		tPred = tBlk
	}
	if eBlk != nil {
		ePred = eBlk
	}
	idx := func(p *ssa.BasicBlock) int {
		for i, q := range join.Preds {
			if q == p {
				return i
			}
		}
		return -1
	}
	st.trace = append(st.trace, -join.Index)
	for _, ins := range join.Instrs {
		phi, ok := ins.(*ssa.Phi)
		if !ok {
			break
		}
		tv, ev := e.val(tS, phi.Edges[idx(tPred)]), e.val(eS, phi.Edges[idx(ePred)])
		if tv == ev {
			st.vals[phi] = tv
		} else {
			st.vals[phi] = fmt.Sprintf("(ite %s %s %s)", cond, tv, ev)
		}
		if phi.Comment != "" && phi.Comment != "rangeindex" && token.IsIdentifier(phi.Comment) {
			st.dbg[phi.Comment] = DbgBinding{phi, false}
		}
	}
	e.runFrom(st, join, 0)
	return true
}

func foldable(op token.Token) bool {
	switch op {
	case token.ADD, token.SUB, token.MUL, token.LSS, token.LEQ, token.GTR, token.GEQ, token.EQL, token.NEQ:
		return true
	}
	return false
}

func foldInt(op token.Token, a, b string) string {
	var x, y int64
	fmt.Sscan(a, &x)
	fmt.Sscan(b, &y)
	bl := func(v bool) string { return fmt.Sprint(v) }
	switch op {
	case token.ADD:
		return fmt.Sprint(x + y)
	case token.SUB:
		if x-y < 0 {
			return fmt.Sprintf("(- %d)", y-x)
		}
		return fmt.Sprint(x - y)
	case token.MUL:
		return fmt.Sprint(x * y)
	case token.LSS:
		return bl(x < y)
	case token.LEQ:
		return bl(x <= y)
	case token.GTR:
		return bl(x > y)
	case token.GEQ:
		return bl(x >= y)
	case token.EQL:
		return bl(x == y)
	}
	return bl(x != y)
}

// parseTag mimics reflect.StructTag.Lookup for a literal tag.
func parseTag(tag, key string) (string, bool) {
	for tag != "" {
		i := 0
		for i < len(tag) && tag[i] == ' ' {
			i++
		}
		tag = tag[i:]
		if tag == "" {
			break
		}
		i = 0
		for i < len(tag) && tag[i] > ' ' && tag[i] != ':' && tag[i] != '"' && tag[i] != 0x7f {
			i++
		}
		if i == 0 || i+1 >= len(tag) || tag[i] != ':' || tag[i+1] != '"' {
			break
		}
		name := tag[:i]
		tag = tag[i+1:]
		i = 1
		for i < len(tag) && tag[i] != '"' {
			if tag[i] == '\\' {
				i++
			}
			i++
		}
		if i >= len(tag) {
			break
		}
		qvalue := tag[:i+1]
		tag = tag[i+1:]
		if key == name {
			v, err := strconv.Unquote(qvalue)
			if err != nil {
				break
			}
			return v, true
		}
	}
	return "", false
}

// smtToGo converts an SMT string literal produced by smtStr back into a Go quoted literal.
func smtToGo(t string) string {
	if len(t) < 2 || t[0] != '"' {
		return t
	}
	body := t[1 : len(t)-1]
	body = strings.ReplaceAll(body, "\"\"", "\x00")
	var b strings.Builder
	for i := 0; i < len(body); i++ {
		if strings.HasPrefix(body[i:], "\\u{") {
			j := strings.Index(body[i:], "}")
			var v int
			fmt.Sscanf(body[i+3:i+j], "%x", &v)
			b.WriteByte(byte(v))
			i += j
			continue
		}
		if body[i] == 0 {
			b.WriteByte('"')
			continue
		}
		b.WriteByte(body[i])
	}
	return strconv.Quote(b.String())
}

// convTypeName: conversions are keyed by underlying basic types (a named string type converts like string).
func convTypeName(t types.Type) string {
	switch u := t.Underlying().(type) {
	case *types.Basic:
		return u.Name()
	case *types.Slice:
		return "[]" + convTypeName(u.Elem())
	}
	return t.String()
}
