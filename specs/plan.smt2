; plan.smt2 - C11/C01/C18: breadth-first work list over the issuer forest.
; requires db.smt2
; usetype github.com/wokdav/gopki/generator/db.Change
; usetype github.com/wokdav/gopki/generator/db.BuildArtifact
; useheap HS_String
; useheap H_S_db_BuildArtifact
(define-fun-rec copyInto_String ((a (Array Int String)) (at Int) (x (Array Int String)) (xo Int) (m Int)) (Array Int String)
  (ite (<= m 0) a (store (copyInto_String a at x xo (- m 1)) (+ at (- m 1)) (select x (+ xo (- m 1))))))
(define-fun subsArr ((S DbSt) (a String)) (Array Int String) (select HS_String_0 (base (dbSubs S a))))
; observers return stored slices: well formed, allocated before the call
(assert (forall ((b DbSt) (a String)) (let ((s (dbSubs b a))) (and (<= 0 (base s)) (< (base s) nextRef0) (= (off s) 0) (<= 0 (len s)) (<= (len s) (cap s))))))
(assert (forall ((b DbSt)) (let ((s (dbRoots b))) (and (<= 0 (base s)) (< (base s) nextRef0) (= (off s) 0) (<= 0 (len s)) (<= (len s) (cap s))))))
(assert (forall ((b DbSt)) (>= (dbNum b) 0)))
; bfs: number of entities reached from the work list a[0..n) when every visited entity appends its subscribers
(define-fun-rec bfs ((S DbSt) (a (Array Int String)) (n Int) (i Int)) Int
  (ite (or (< i 0) (>= i n)) n
     (bfs S (copyInto_String a n (subsArr S (select a i)) (off (dbSubs S (select a i))) (len (dbSubs S (select a i)))) (+ n (len (dbSubs S (select a i)))) (+ i 1))))
; ---- planning (C11): outcome of validateAndMerge and needsUpdate named as functions of the backend state and their arguments
(declare-fun vmErr (DbSt String) Any)
(declare-fun vmVal (DbSt String) S_config_CertificateContent)
(declare-fun nu (DbSt (_ BitVec 8) String S_config_CertificateContent) Bool)
(define-fun chAlias ((c S_db_Change)) String (S_config_CertificateContent__Alias (S_db_Change__EffectiveConfig c)))
(define-fun vpushCh ((v (View S_db_Change)) (x S_db_Change)) (View S_db_Change) (mkview (store (varr v) (+ (voff v) (vlen v)) x) (voff v) (+ (vlen v) 1)))
(declare-datatypes ((PlanRes 0)) (((mkplan (pOk Bool) (pCh (View S_db_Change))))))
; plan: T[0..n) is the work list, i the next entity, Ch the changes so far, U the set of aliases planned so far.
; An entity is planned iff its issuer's alias is already planned or needsUpdate says so; a planned entity is a
; Replace when a certificate exists, else a Create; the first validate/merge or artifact-fetch error aborts.
(define-fun-rec plan ((S DbSt) (strat (_ BitVec 8)) (T (Array Int String)) (n Int) (i Int) (Ch (View S_db_Change)) (U (Array String Bool))) PlanRes
  (ite (or (< i 0) (>= i n)) (mkplan true Ch)
   (let ((e (select T i)))
   (let ((T2 (copyInto_String T n (subsArr S e) (off (dbSubs S e)) (len (dbSubs S e)))) (n2 (+ n (len (dbSubs S e)))))
    (ite (not (= (vmErr S e) nilAny)) (mkplan false Ch)
     (let ((cv (vmVal S e)))
      (ite (or (select U (S_config_CertificateContent__Issuer cv)) (nu S strat e cv))
         (ite (not (= (dbArtErr S e) nilAny)) (mkplan false Ch)
             (plan S strat T2 n2 (+ i 1)
                (vpushCh Ch (mk_S_db_Change e cv (ite (not (= (S_db_BuildArtifact__Certificate (select H_S_db_BuildArtifact_0 (dbArt S e))) 0)) #x02 #x01)))
                (store U (S_config_CertificateContent__Alias cv) true)))
         (plan S strat T2 n2 (+ i 1) Ch U))))))))
; ---- BulkUpdate (C10): artifact paths of the first i changes; number of changes that generate
(define-fun-rec inArtPaths ((S DbSt) (v (View S_db_Change)) (i Int) (p String)) Bool
  (and (< 0 i) (<= i (vlen v)) (or (= p (dbArtPath S (S_db_Change__Alias (select (varr v) (+ (voff v) (- i 1)))))) (inArtPaths S v (- i 1) p))))
(define-fun-rec countGen ((v (View S_db_Change)) (i Int)) Int
  (ite (or (<= i 0) (> i (vlen v))) 0
     (+ (countGen v (- i 1)) (ite (= (bvand (S_db_Change__Change (select (varr v) (+ (voff v) (- i 1)))) #x03) #x00) 0 1))))
