; der.smt2 - C07/C16: TLV composition over the byte-string algebra
; requires bytes.smt2
; usetype encoding/asn1.RawValue
; usetype encoding/asn1.BitString
(declare-fun tlv (Int Int Bool Bytes) Bytes)        ; class, tag, constructed, content
(declare-fun bitstringDer (Bytes Int) Bytes)        ; BIT STRING of the bytes with the given bit length
(declare-fun derField (Deep String) Bytes)          ; asn1.MarshalWithParams(value, struct-tag parameters)
