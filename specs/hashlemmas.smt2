; hashlemmas.smt2 - helper predicates of the C13 lemmas
; requires hash.smt2
(define-fun sameRelevant ((a S_config_CertificateContent) (b S_config_CertificateContent)) Bool
  (and (= (S_config_CertificateContent__SerialNumber a) (S_config_CertificateContent__SerialNumber b))
       (= (S_config_CertificateContent__IssuerUniqueId a) (S_config_CertificateContent__IssuerUniqueId b))
       (= (S_config_CertificateContent__SubjectUniqueId a) (S_config_CertificateContent__SubjectUniqueId b))
       (= (S_config_CertificateContent__Subject a) (S_config_CertificateContent__Subject b))
       (= (S_config_CertificateContent__Issuer a) (S_config_CertificateContent__Issuer b))
       (= (S_config_CertificateContent__KeyAlgorithm a) (S_config_CertificateContent__KeyAlgorithm b))
       (= (S_config_CertificateContent__SignatureAlgorithm a) (S_config_CertificateContent__SignatureAlgorithm b))
       (= (S_config_CertificateContent__Extensions a) (S_config_CertificateContent__Extensions b))
       (= (S_config_CertificateContent__Manipulations a) (S_config_CertificateContent__Manipulations b))))
(define-fun vIsStatic ((c S_config_CertificateContent)) Bool (S_config_CertificateValidity__IsStatic (S_config_CertificateContent__Validity c)))
(define-fun vIsSet ((c S_config_CertificateContent)) Bool (S_config_CertificateValidity__IsSet (S_config_CertificateContent__Validity c)))
(define-fun vFrom ((c S_config_CertificateContent)) O_time_Time (S_config_CertificateValidity__From (S_config_CertificateContent__Validity c)))
(define-fun vUntil ((c S_config_CertificateContent)) O_time_Time (S_config_CertificateValidity__Until (S_config_CertificateContent__Validity c)))
(declare-fun span (O_time_Time O_time_Time) Int)   ; the period between two instants: what a relative validity (duration, or until without from) configures
