; bytes.smt2 - the algebra of byte strings used at spec level
; requires base.smt2
(declare-fun bunit ((_ BitVec 8)) Bytes)
(declare-fun blen (Bytes) Int)
(declare-fun strBytes (String) Bytes)
(declare-fun bytesStr (Bytes) String)
(assert (forall ((x Bytes)) (! (= (bcat bempty x) x) :pattern ((bcat bempty x)))))
(assert (forall ((x Bytes)) (! (= (bcat x bempty) x) :pattern ((bcat x bempty)))))
(assert (forall ((a (Array Int (_ BitVec 8))) (o Int)) (! (= (bytesv a o 0) bempty) :pattern ((bytesv a o 0)))))
(assert (forall ((a (Array Int (_ BitVec 8))) (o Int)) (! (= (bytesv a o 1) (bunit (select a o))) :pattern ((bytesv a o 1)))))
(assert (forall ((a Bytes) (b Bytes)) (! (= (blen (bcat a b)) (+ (blen a) (blen b))) :pattern ((bcat a b)))))
(assert (forall ((a Bytes)) (! (>= (blen a) 0) :pattern ((blen a)))))
(assert (= (blen bempty) 0))
(assert (forall ((s String)) (! (= (blen (strBytes s)) (str.len s)) :pattern ((strBytes s)))))
