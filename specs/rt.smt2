; rt.smt2 - C17: what encoding/asn1.Unmarshal reads back from DER of the key containers, and that it undoes Marshal
; on them (assumed of encoding/asn1; this is the step the round trip of a private key rests on)
; requires bytes.smt2 x509.smt2 deepbase.smt2
; usetype github.com/wokdav/gopki/generator/cert.pkcs8
; usetype github.com/wokdav/gopki/generator/cert.ecPrivateKey
(declare-fun deepS_S_cert_pkcs8 (Deep Deep Deep) Deep)
(declare-fun deepS_S_crypto_x509_pkix_AlgorithmIdentifier (Deep Deep) Deep)
(declare-fun deepS_S_encoding_asn1_RawValue (Deep Deep Deep Deep Deep) Deep)
(declare-fun deepS_S_cert_ecPrivateKey (Deep Deep Deep Deep) Deep)
; PKCS#8 PrivateKeyInfo as Unmarshal into cert.pkcs8 sees it
(declare-fun isP8Der (Bytes) Bool)
(declare-fun p8Ver (Bytes) Int)
(declare-fun p8Alg (Bytes) OidV)
(declare-fun p8Params (Bytes) Bytes)     ; FullBytes of the algorithm parameters
(declare-fun p8Key (Bytes) Bytes)
(assert (forall ((v Int) (a OidV) (c Deep) (t Deep) (ic Deep) (pb Deep) (full Bytes) (k Bytes))
  (! (let ((b (der (deepS_S_cert_pkcs8 (deepv_Int v) (deepS_S_crypto_x509_pkix_AlgorithmIdentifier (deepOid a) (deepS_S_encoding_asn1_RawValue c t ic pb (deepBytes full))) (deepBytes k)))))
       (and (isP8Der b) (= (p8Ver b) v) (= (p8Alg b) a) (= (p8Key b) k) (=> (> (blen full) 0) (= (p8Params b) full))))
   :pattern ((deepS_S_cert_pkcs8 (deepv_Int v) (deepS_S_crypto_x509_pkix_AlgorithmIdentifier (deepOid a) (deepS_S_encoding_asn1_RawValue c t ic pb (deepBytes full))) (deepBytes k))))))
; RFC 5915 ECPrivateKey as Unmarshal into cert.ecPrivateKey sees it
(declare-fun isEcDer (Bytes) Bool)
(declare-fun ecVer (Bytes) Int)
(declare-fun ecScalar (Bytes) Bytes)
(declare-fun ecOidOf (Bytes) OidV)        ; onil when the optional parameters are absent
(assert (forall ((v Int) (k Bytes) (o OidV) (pub Deep))
  (! (let ((b (der (deepS_S_cert_ecPrivateKey (deepv_Int v) (deepBytes k) (deepOid o) pub))))
       (and (isEcDer b) (= (ecVer b) v) (= (ecScalar b) k) (= (ecOidOf b) o)))
   :pattern ((deepS_S_cert_ecPrivateKey (deepv_Int v) (deepBytes k) (deepOid o) pub)))))
; an OBJECT IDENTIFIER
(declare-fun isOidDer (Bytes) Bool)
(declare-fun oidParse (Bytes) OidV)
(assert (forall ((o OidV)) (! (and (isOidDer (der (deepOid o))) (= (oidParse (der (deepOid o))) o)) :pattern ((der (deepOid o))))))
(assert (forall ((d Deep)) (! (> (blen (der d)) 0) :pattern ((der d)))))
