; db.smt2 - the db.Database interface as observers of an abstract backend state (model field DbState)
; requires base.smt2
(declare-sort DbSt 0)
(declare-fun dbCfg (DbSt String) Int)      (declare-fun dbCfgErr (DbSt String) Any)
(declare-fun dbMeta (DbSt String) Int)     (declare-fun dbMetaErr (DbSt String) Any)
(declare-fun dbArt (DbSt String) Int)      (declare-fun dbArtErr (DbSt String) Any)
(declare-fun dbProfile (DbSt String) Int)  (declare-fun dbProfileErr (DbSt String) Any)
(declare-fun dbSubs (DbSt String) Slice)
(declare-fun dbRoots (DbSt) Slice)
(declare-fun dbNum (DbSt) Int)
; interface invariant (db.go, comments of the Database interface): results are valid references; an error comes with a nil result;
; a known alias has metadata and an artifact entry
(assert (forall ((b DbSt) (a String)) (and (>= (dbCfg b a) 0) (>= (dbMeta b a) 0) (>= (dbArt b a) 0) (>= (dbProfile b a) 0))))
(assert (forall ((b DbSt) (a String)) (=> (not (= (dbCfgErr b a) nilAny)) (= (dbCfg b a) 0))))
(assert (forall ((b DbSt) (a String)) (=> (not (= (dbMetaErr b a) nilAny)) (= (dbMeta b a) 0))))
(assert (forall ((b DbSt) (a String)) (=> (not (= (dbArtErr b a) nilAny)) (= (dbArt b a) 0))))
(assert (forall ((b DbSt) (a String)) (=> (not (= (dbProfileErr b a) nilAny)) (= (dbProfile b a) 0))))
(assert (forall ((b DbSt) (a String)) (=> (and (not (= (dbCfg b a) 0)) (= (dbMetaErr b a) nilAny)) (not (= (dbMeta b a) 0)))))
(assert (forall ((b DbSt) (a String)) (=> (and (not (= (dbCfg b a) 0)) (= (dbArtErr b a) nilAny)) (not (= (dbArt b a) 0)))))
; ---- writes through the Database interface (C10): the backend state after a Put is a function of the state before and the
; arguments; Puts never change which aliases exist apart from the alias put, nor where artifacts are stored
(declare-fun dbPutCfg (DbSt String Deep) DbSt)
(declare-fun dbPutArt (DbSt String Deep) DbSt)
(declare-fun dbArtPath (DbSt String) String)   ; the file an alias's artifact is stored in
(assert (forall ((s DbSt) (a String) (d Deep) (b String)) (! (= (dbArtPath (dbPutCfg s a d) b) (dbArtPath s b)) :pattern ((dbArtPath (dbPutCfg s a d) b)))))
(assert (forall ((s DbSt) (a String) (d Deep) (b String)) (! (= (dbArtPath (dbPutArt s a d) b) (dbArtPath s b)) :pattern ((dbArtPath (dbPutArt s a d) b)))))
(assert (forall ((s DbSt) (a String) (d Deep) (b String)) (! (= (= (dbCfg (dbPutCfg s a d) b) 0) (and (= (dbCfg s b) 0) (not (= a b)))) :pattern ((dbCfg (dbPutCfg s a d) b)))))
(assert (forall ((s DbSt) (a String) (d Deep) (b String)) (! (= (= (dbCfg (dbPutArt s a d) b) 0) (= (dbCfg s b) 0)) :pattern ((dbCfg (dbPutArt s a d) b)))))
