; db.smt2 - the db.Database interface as observers of an abstract backend state (model field DbState)
; requires base.smt2
(declare-sort DbSt 0)
(declare-fun dbCfg (DbSt String) Int)      (declare-fun dbCfgErr (DbSt String) Any)
(declare-fun dbMeta (DbSt String) Int)     (declare-fun dbMetaErr (DbSt String) Any)
(declare-fun dbArt (DbSt String) Int)      (declare-fun dbArtErr (DbSt String) Any)
(declare-fun dbProfile (DbSt String) Int)  (declare-fun dbProfileErr (DbSt String) Any)
(declare-fun dbSubs (DbSt String) Slice)
(declare-fun dbRoots (DbSt) Slice)
(declare-fun dbNum (DbSt) Int)
; interface invariant (db.go, comments of the Database interface): results are valid references; an error comes with a nil result;
; a known alias has metadata and an artifact entry
(assert (forall ((b DbSt) (a String)) (and (>= (dbCfg b a) 0) (>= (dbMeta b a) 0) (>= (dbArt b a) 0) (>= (dbProfile b a) 0))))
(assert (forall ((b DbSt) (a String)) (=> (not (= (dbCfgErr b a) nilAny)) (= (dbCfg b a) 0))))
(assert (forall ((b DbSt) (a String)) (=> (not (= (dbMetaErr b a) nilAny)) (= (dbMeta b a) 0))))
(assert (forall ((b DbSt) (a String)) (=> (not (= (dbArtErr b a) nilAny)) (= (dbArt b a) 0))))
(assert (forall ((b DbSt) (a String)) (=> (not (= (dbProfileErr b a) nilAny)) (= (dbProfile b a) 0))))
(assert (forall ((b DbSt) (a String)) (=> (and (not (= (dbCfg b a) 0)) (= (dbMetaErr b a) nilAny)) (not (= (dbMeta b a) 0)))))
(assert (forall ((b DbSt) (a String)) (=> (and (not (= (dbCfg b a) 0)) (= (dbArtErr b a) nilAny)) (not (= (dbArt b a) 0)))))
