; v1ext.smt2 - C06/C07: what the version-1 extension configurations mean
; requires ext.smt2 raw.smt2
; key usage names (certificate-example.yaml) and their RFC 5280 bit positions (bit 0 = most significant)
(define-fun kuKnown ((s String)) Bool (or (= s "digitalSignature") (= s "nonRepudiation") (= s "keyEncipherment") (= s "dataEncipherment") (= s "keyAgreement") (= s "keyCertSign") (= s "crlSign")))
(define-fun kuBit ((s String)) (_ BitVec 8) (ite (= s "digitalSignature") #x80 (ite (= s "nonRepudiation") #x40 (ite (= s "keyEncipherment") #x20 (ite (= s "dataEncipherment") #x10 (ite (= s "keyAgreement") #x08 (ite (= s "keyCertSign") #x04 (ite (= s "crlSign") #x02 #x00))))))))
(define-fun-rec kuOk ((v (View String)) (i Int)) Bool (or (< i 0) (>= i (vlen v)) (and (kuKnown (select (varr v) (+ (voff v) i))) (kuOk v (+ i 1)))))
(define-fun-rec kuFold ((v (View String)) (i Int) (acc (_ BitVec 8))) (_ BitVec 8) (ite (or (< i 0) (>= i (vlen v))) acc (kuFold v (+ i 1) (bvor acc (kuBit (select (varr v) (+ (voff v) i)))))))
; subject alternative names: kinds mail, dns, ip (dotted quad, every octet 0..255)
; usetype github.com/wokdav/gopki/generator/config/v1.SubjAltNameComponent
(define-fun sanType ((c S_config_v1_SubjAltNameComponent)) String (S_config_v1_SubjAltNameComponent__Type c))
(define-fun sanName ((c S_config_v1_SubjAltNameComponent)) String (S_config_v1_SubjAltNameComponent__Name c))
(define-fun octetOk ((s String) (k Int)) Bool (and (isInt (splitPart s "." k)) (<= 0 (intval (splitPart s "." k))) (<= (intval (splitPart s "." k)) 255)))
(define-fun octet ((s String) (k Int)) (_ BitVec 8) ((_ int2bv 8) (intval (splitPart s "." k))))
(define-fun ipOk ((s String)) Bool (and (= (count s ".") 3) (octetOk s 0) (octetOk s 1) (octetOk s 2) (octetOk s 3)))
(define-fun ipBytes ((s String)) Bytes (bcat (bcat (bcat (bunit (octet s 0)) (bunit (octet s 1))) (bunit (octet s 2))) (bunit (octet s 3))))
(define-fun sanOk ((c S_config_v1_SubjAltNameComponent)) Bool
  (or (= (sanType c) "mail") (= (sanType c) "dns") (and (= (sanType c) "ip") (ipOk (sanName c)))))
(define-fun sanDer ((c S_config_v1_SubjAltNameComponent)) Bytes
  (ite (= (sanType c) "mail") (tlv 2 1 false (strBytes (sanName c)))
  (ite (= (sanType c) "dns") (tlv 2 2 false (strBytes (sanName c)))
       (tlv 2 7 false (ipBytes (sanName c))))))
(define-fun-rec sanAllOk ((v (View S_config_v1_SubjAltNameComponent)) (i Int)) Bool
  (or (< i 0) (>= i (vlen v)) (and (sanOk (select (varr v) (+ (voff v) i))) (sanAllOk v (+ i 1)))))
(define-fun-rec catSan ((v (View S_config_v1_SubjAltNameComponent)) (i Int) (acc Bytes)) Bytes
  (ite (or (< i 0) (>= i (vlen v))) acc (catSan v (+ i 1) (bcat acc (sanDer (select (varr v) (+ (voff v) i)))))))
; extended key usage names of the configuration, else a dotted OID
(define-fun ekuKnown ((s String)) Bool (or (= s "serverAuth") (= s "clientAuth") (= s "codeSigning") (= s "emailProtection") (= s "timeStamping") (= s "OCSPSigning")))
(define-fun ekuIndex ((s String)) Int (ite (= s "serverAuth") 0 (ite (= s "clientAuth") 1 (ite (= s "codeSigning") 2 (ite (= s "emailProtection") 3 (ite (= s "timeStamping") 4 5))))))
(define-fun ekuOk ((s String)) Bool (or (ekuKnown s) (isOidStr s)))
(define-fun ekuOid ((s String)) OidV (ite (ekuKnown s) (specEkuOid (ekuIndex s)) (parseOid s)))
(define-fun-rec ekuAllOk ((v (View String)) (i Int)) Bool (or (< i 0) (>= i (vlen v)) (and (ekuOk (select (varr v) (+ (voff v) i))) (ekuAllOk v (+ i 1)))))
; GeneralName of the admission configuration: kind by type
(define-fun gnSpec ((ty String) (name String)) Bytes
  (ite (= ty "dns") (tlv 2 2 false (strBytes name)) (ite (= ty "mail") (tlv 2 1 false (strBytes name))
  (ite (= ty "url") (tlv 2 6 false (strBytes name)) (tlv 2 7 false (ipBytes name))))))
