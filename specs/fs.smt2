; fs.smt2 - C10/C13/C14/C18: artifact files and the world state of the file system
; requires bytes.smt2 strings.smt2 x509.smt2
(declare-fun b64 (Bytes) String)
(declare-fun b64dec (String) Bytes)
(declare-fun isB64 (String) Bool)
(assert (forall ((x Bytes)) (! (and (isB64 (b64 x)) (= (b64dec (b64 x)) x)) :pattern ((b64 x)))))
(declare-fun artName (String) String)         ; config path with everything from its last dot replaced by ".pem"
(declare-fun pemText (String Bytes) Bytes)    ; one PEM block: type, DER bytes
(declare-fun pkcs8 (Any) Bytes)               ; PKCS#8 DER of a private key
(define-fun pemCert ((d Deep)) Bytes (pemText "CERTIFICATE" (der d)))
(define-fun pemReq ((d Deep)) Bytes (pemText "CERTIFICATE REQUEST" (der d)))
(define-fun pemKey ((k Any)) Bytes (pemText "PRIVATE KEY" (pkcs8 k)))
(define-fun artNameOf ((s String)) String (str.++ (strSlice s 0 (lastIndex s ".")) ".pem"))
(declare-fun strAt (String Int) Int)            ; k-th byte of a string
(assert (and (= (strAt "#HASH:" 0) 35) (= (strAt "#HASH:" 1) 72) (= (strAt "#HASH:" 2) 65) (= (strAt "#HASH:" 3) 83) (= (strAt "#HASH:" 4) 72) (= (strAt "#HASH:" 5) 58)))
(declare-fun entryName (Any) String)          ; base name of a directory entry
