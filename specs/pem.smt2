; pem.smt2 - C17/C14: what encoding/pem.Decode finds in a byte string, and the scan ReadPem performs over it
; requires fs.smt2 strings.smt2 x509.smt2
(declare-fun hasPem (Bytes) Bool)             ; pem.Decode finds a block
(declare-fun pemType (Bytes) String)          ; its type line
(declare-fun pemBody (Bytes) Bytes)           ; its decoded body
(declare-fun pemRest (Bytes) Bytes)           ; what follows it
; kind of a block as ReadPem classifies it: 1 certificate, 2 request, 3 private key (type contains "PRIVATE KEY"), 0 ignored
(define-fun pemKind ((t String)) Int
  (ite (= t "CERTIFICATE") 1 (ite (= t "CERTIFICATE REQUEST") 2 (ite (contains t "PRIVATE KEY") 3 0))))
; number of remaining blocks: the scan is a recursion on it (pem.Decode consumes input)
(declare-fun pemCount (Bytes) Int)
(assert (forall ((d Bytes)) (! (and (>= (pemCount d) 0) (=> (hasPem d) (= (pemCount d) (+ 1 (pemCount (pemRest d)))))) :pattern ((pemCount d)))))
; body of the last block of a kind (acc if there is none), and whether there is one
(define-fun-rec pemLast ((d Bytes) (kind Int) (acc Bytes)) Bytes
  (ite (not (hasPem d)) acc (pemLast (pemRest d) kind (ite (= (pemKind (pemType d)) kind) (pemBody d) acc))))
(define-fun-rec pemAny ((d Bytes) (kind Int) (acc Bool)) Bool
  (ite (not (hasPem d)) acc (pemAny (pemRest d) kind (or acc (= (pemKind (pemType d)) kind)))))
; what is left when no further block is found (must be empty for ReadPem to succeed)
(define-fun-rec pemTail ((d Bytes)) Bytes (ite (not (hasPem d)) d (pemTail (pemRest d))))
; a written block is found again: Decode of Encode (RFC 7468 framing; text before the first BEGIN line is skipped)
(assert (forall ((t String) (b Bytes) (r Bytes)) (! (and (hasPem (bcat (pemText t b) r)) (= (pemType (bcat (pemText t b) r)) t)
  (= (pemBody (bcat (pemText t b) r)) b) (= (pemRest (bcat (pemText t b) r)) r)) :pattern ((bcat (pemText t b) r)))))
; asn1.Unmarshal as the inverse of asn1.Marshal on what Marshal produces (assumed), and the scan at the level of parsed values
(declare-const noDeep Deep)
(define-fun-rec pemLastD ((d Bytes) (kind Int) (acc Deep)) Deep
  (ite (not (hasPem d)) acc (pemLastD (pemRest d) kind (ite (= (pemKind (pemType d)) kind) (derParse (pemBody d)) acc))))
