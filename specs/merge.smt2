; merge.smt2 - C08: the merge rule of the statement as a recursion over the profile's extension list.
; State: H = indices of certificate extensions already matched, O = indices placed by an override, Out = result so far.
; requires base.smt2
; usetype github.com/wokdav/gopki/generator/config.ProfileExtension
(declare-fun extOid (Any) OidV)
; requires hash.smt2
(define-fun jsonOf ((x Any)) Bytes (jsonBytes (deepOf x)))
(define-fun vgI ((v (View Int)) (i Int)) Int (select (varr v) (+ (voff v) i)))
(define-fun vgA ((v (View Any)) (i Int)) Any (select (varr v) (+ (voff v) i)))
(define-fun vpI ((v (View Int)) (x Int)) (View Int) (mkview (store (varr v) (+ (voff v) (vlen v)) x) (voff v) (+ (vlen v) 1)))
(define-fun vpA ((v (View Any)) (x Any)) (View Any) (mkview (store (varr v) (+ (voff v) (vlen v)) x) (voff v) (+ (vlen v) 1)))
; memf l j x: x occurs in l at a position >= j
(define-fun-rec memf ((l (View Int)) (j Int) (x Int)) Bool
  (and (<= 0 j) (< j (vlen l)) (or (= (vgI l j) x) (memf l (+ j 1) x))))
; fm C H o i: the first certificate extension at position >= i that is not yet matched and has OID o, or -1
(define-fun-rec fm ((C (View Any)) (H (View Int)) (o OidV) (i Int)) Int
  (ite (or (< i 0) (>= i (vlen C))) (- 1)
    (ite (and (not (memf H 0 i)) (= (extOid (vgA C i)) o)) i (fm C H o (+ i 1)))))
(declare-datatypes ((St 0)) (((mkst (sH (View Int)) (sO (View Int)) (sOut (View Any))))))
(define-fun pext ((p S_config_ProfileExtension)) Any (S_config_ProfileExtension__ExtensionConfig p))
(define-fun povr ((p S_config_ProfileExtension)) Bool (S_config_ExtensionProfile__Override (S_config_ProfileExtension__ExtensionProfile p)))
(define-fun popt ((p S_config_ProfileExtension)) Bool (S_config_ExtensionProfile__Optional (S_config_ProfileExtension__ExtensionProfile p)))
; one profile entry (the statement, case by case)
(define-fun step ((P (View S_config_ProfileExtension)) (C (View Any)) (k Int) (s St)) St
  (let ((pe (select (varr P) (+ (voff P) k))))
  (let ((m (fm C (sH s) (extOid (pext pe)) 0)))
   (ite (>= m 0)
     (ite (povr pe)
        (mkst (vpI (sH s) m) (vpI (sO s) m) (vpA (sOut s) (vgA C m)))
        (ite (not (= (jsonOf (vgA C m)) (jsonOf (pext pe))))
           (mkst (vpI (sH s) m) (sO s) (vpA (sOut s) (pext pe)))
           (mkst (vpI (sH s) m) (sO s) (sOut s))))
     (ite (not (popt pe))
        (mkst (sH s) (sO s) (vpA (sOut s) (pext pe)))
        s)))))
(define-fun-rec run ((P (View S_config_ProfileExtension)) (C (View Any)) (k Int) (s St)) St
  (ite (or (< k 0) (>= k (vlen P))) s (run P C (+ k 1) (step P C k s))))
; all certificate extensions not placed by an override follow in their original order
(define-fun-rec tail ((C (View Any)) (O (View Int)) (i Int) (out (View Any))) (View Any)
  (ite (or (< i 0) (>= i (vlen C))) out
     (ite (memf O 0 i) (tail C O (+ i 1) out) (tail C O (+ i 1) (vpA out (vgA C i))))))
