; hash.smt2 - C13: what the configuration hash is a hash of.
; requires base.smt2
; usetype github.com/wokdav/gopki/generator/config.CertificateContent
(declare-fun jsonBytes (Deep) Bytes)
(declare-fun digest (Int Bytes) Bytes)      ; digest(hash id, data); hash ids are crypto.Hash values: 3 SHA-1, 5 SHA-256, 6 SHA-384, 7 SHA-512
(declare-fun hashAlgOf (Any) Int)
; the statement: alias, profile name and run-relative times do not enter the hash; everything else does
(define-fun blankValidity ((v S_config_CertificateValidity)) S_config_CertificateValidity
  (ite (or (not (S_config_CertificateValidity__IsStatic v)) (not (S_config_CertificateValidity__IsSet v)))
       (mk_S_config_CertificateValidity zero_O_time_Time zero_O_time_Time (S_config_CertificateValidity__IsStatic v) (S_config_CertificateValidity__IsSet v))
       v))
(define-fun blankV ((c S_config_CertificateContent)) S_config_CertificateContent
  (mk_S_config_CertificateContent "" (S_config_CertificateContent__SerialNumber c) (S_config_CertificateContent__IssuerUniqueId c)
     (S_config_CertificateContent__SubjectUniqueId c) "" (S_config_CertificateContent__Subject c) (S_config_CertificateContent__Issuer c)
     (blankValidity (S_config_CertificateContent__Validity c)) (S_config_CertificateContent__KeyAlgorithm c)
     (S_config_CertificateContent__SignatureAlgorithm c) (S_config_CertificateContent__Extensions c) (S_config_CertificateContent__Manipulations c)))
