; oidok.smt2 - definition of oidOk: at least two arcs, none negative, first arc 0..2, second below 40 unless the first is 2
; requires x509.smt2
(define-fun-rec olen ((o OidV)) Int (ite ((_ is onil) o) 0 (+ 1 (olen (oinit o)))))
(define-fun-rec onn ((o OidV)) Bool (ite ((_ is onil) o) true (and (>= (olast o) 0) (onn (oinit o)))))
(define-fun-rec oat ((o OidV) (i Int)) Int (ite ((_ is onil) o) (- 1) (ite (= (olen o) (+ i 1)) (olast o) (oat (oinit o) i))))
(assert (forall ((o OidV)) (! (= (oidOk o) (and (>= (olen o) 2) (onn o) (<= (oat o 0) 2) (=> (< (oat o 0) 2) (< (oat o 1) 40)))) :pattern ((oidOk o)))))
