; x509.smt2 - C01/C02: what signing means, and the identifiers of RFC 3279 / 4055 / 5758.
; requires hash.smt2
; usetype crypto/x509/pkix.Extension
; usetype crypto/x509/pkix.AlgorithmIdentifier
(declare-fun der (Deep) Bytes)                      ; encoding/asn1.Marshal of a value (a function of its deep value)
(declare-fun ecdsaVerify (Int Bytes Bytes) Bool)    ; (private key object, digest, signature): verifies under the key's public half
(declare-fun rsaVerify (Int Int Bytes Bytes) Bool)  ; (private key object, hash id, digest, signature): PKCS#1 v1.5
(declare-fun compileRes (Any Int) S_crypto_x509_pkix_Extension)   ; result of ExtensionBuilder.Compile(builder, context)
(declare-fun compileErr (Any Int) Any)
; cert.SignatureAlgorithm: 0..3 RSA with SHA-1/256/384/512, 4..7 ECDSA with SHA-1/256/384/512
(define-fun specHashId ((a Int)) Int (ite (or (= a 0) (= a 4)) 3 (ite (or (= a 1) (= a 5)) 5 (ite (or (= a 2) (= a 6)) 6 7))))
(define-fun specKeyType ((a Int)) Int (ite (<= a 3) 0 1))   ; 0 RSA, 1 EC
(define-fun oid7 ((a Int) (b Int) (c Int) (d Int) (e Int) (f Int) (g Int)) OidV (osnoc (osnoc (osnoc (osnoc (osnoc (osnoc (osnoc onil a) b) c) d) e) f) g))
(define-fun oid6 ((a Int) (b Int) (c Int) (d Int) (e Int) (f Int)) OidV (osnoc (osnoc (osnoc (osnoc (osnoc (osnoc onil a) b) c) d) e) f))
(define-fun specSigOid ((a Int)) OidV
  (ite (= a 0) (oid7 1 2 840 113549 1 1 5) (ite (= a 1) (oid7 1 2 840 113549 1 1 11) (ite (= a 2) (oid7 1 2 840 113549 1 1 12)
  (ite (= a 3) (oid7 1 2 840 113549 1 1 13) (ite (= a 4) (oid6 1 2 840 10045 4 1) (ite (= a 5) (oid7 1 2 840 10045 4 3 2)
  (ite (= a 6) (oid7 1 2 840 10045 4 3 3) (oid7 1 2 840 10045 4 3 4)))))))))
(declare-fun builderOf (Any) Any)     ; result of ExtensionConfig.Builder() for an extension configuration
(declare-fun builderErr (Any) Any)
(declare-fun rawFull (Bytes) Bytes)          ; the first TLV of an input, as asn1.Unmarshal stores it in RawValue.FullBytes
(declare-fun isTlv (Bytes) Bool)             ; the input starts with a well-formed TLV
(assert (forall ((d Deep)) (! (and (isTlv (der d)) (= (rawFull (der d)) (der d))) :pattern ((der d)))))
; the value asn1.Unmarshal reads from a DER string, as a function of the string (re-encoding it gives the string back
; for DER input; the converse derParse(der(d)) = d does NOT hold for values holding an asn1.RawValue, whose Class, Tag and
; Bytes are filled by parsing, so no such axiom is stated)
(declare-fun derParse (Bytes) Deep)
; an OBJECT IDENTIFIER value encoding/asn1 can marshal (defined in oidok.smt2, which only the table lemmas load: the
; recursive definitions make the solvers give up early on unrelated goals)
(declare-fun oidOk (OidV) Bool)
