; strings.smt2 - library string functions as uninterpreted functions constrained by their contracts (interpreted
; requires names.smt2
; SMT string operators hang z3 on small goals; measured in the design round)
; trimSpace is declared in names.smt2
(declare-fun toLower (String) String)
(declare-fun lastIndex (String String) Int)
(declare-fun contains (String String) Bool)
(declare-fun hasPrefix (String String) Bool)
(declare-fun hasSuffix (String String) Bool)
(declare-fun strSlice (String Int Int) String)
(declare-fun isHexAttr (String) Bool)                  ; ^#[0-9a-fA-F]+$
(declare-fun hexdec (String) Bytes)
(declare-fun isDuration (String) Bool)
(assert (forall ((s String) (p String)) (! (=> (hasPrefix s p) (>= (str.len s) (str.len p))) :pattern ((hasPrefix s p)))))
(assert (forall ((s String) (p String)) (! (=> (hasSuffix s p) (>= (str.len s) (str.len p))) :pattern ((hasSuffix s p)))))
(assert (forall ((s String) (a Int) (b Int)) (! (=> (and (<= 0 a) (<= a b) (<= b (str.len s))) (= (str.len (strSlice s a b)) (- b a))) :pattern ((strSlice s a b)))))
; a name whose lower-cased form ends in one of the three configuration suffixes contains a dot, and its last dot comes
; after its last slash (the suffixes contain no slash); lower-casing moves neither dots nor slashes
(assert (forall ((s String)) (! (=> (or (hasSuffix (toLower s) ".yaml") (hasSuffix (toLower s) ".yml") (hasSuffix (toLower s) ".json"))
  (and (contains s ".") (< (lastIndex s "/") (lastIndex s ".")))) :pattern ((toLower s)))))
