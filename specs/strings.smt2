; strings.smt2 - library string functions as uninterpreted functions constrained by their contracts (interpreted
; requires names.smt2
; SMT string operators hang z3 on small goals; measured in the design round)
; trimSpace is declared in names.smt2
(declare-fun toLower (String) String)
(declare-fun lastIndex (String String) Int)
(declare-fun contains (String String) Bool)
(declare-fun hasPrefix (String String) Bool)
(declare-fun hasSuffix (String String) Bool)
(declare-fun strSlice (String Int Int) String)
(declare-fun isHexAttr (String) Bool)                  ; ^#[0-9a-fA-F]+$
(declare-fun hexdec (String) Bytes)
(declare-fun isDuration (String) Bool)
(assert (forall ((s String) (p String)) (! (=> (hasPrefix s p) (>= (str.len s) (str.len p))) :pattern ((hasPrefix s p)))))
(assert (forall ((s String) (p String)) (! (=> (hasSuffix s p) (>= (str.len s) (str.len p))) :pattern ((hasSuffix s p)))))
(assert (forall ((s String) (a Int) (b Int)) (! (=> (and (<= 0 a) (<= a b) (<= b (str.len s))) (= (str.len (strSlice s a b)) (- b a))) :pattern ((strSlice s a b)))))
