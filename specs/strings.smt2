; strings.smt2 - library string functions as uninterpreted functions constrained by their contracts (interpreted
; SMT string operators hang z3 on small goals; measured in the design round)
(declare-fun trimSpace (String) String)
(declare-fun toLower (String) String)
(declare-fun lastIndex (String String) Int)
(declare-fun contains (String String) Bool)
(declare-fun hasPrefix (String String) Bool)
(declare-fun hasSuffix (String String) Bool)
(declare-fun strSlice (String Int Int) String)
