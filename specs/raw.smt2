; raw.smt2 - C06: raw values (!binary:<base64>, !empty, !null)
; requires fs.smt2
(declare-fun trimPrefix (String String) String)
(assert (forall ((s String) (p String)) (! (=> (not (hasPrefix s p)) (= (trimPrefix s p) s)) :pattern ((trimPrefix s p)))))
(declare-fun rawOk (String) Bool)        ; readRawString accepts the text
(declare-fun rawBytes (String) Bytes)    ; the bytes it denotes
