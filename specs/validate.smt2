; validate.smt2 - C09: the subject constraints of a profile, over the profile's attribute list P and the subject Sj
; (stored reversed, RFC 4514; h counts in written order).
; requires names.smt2
; usetype github.com/wokdav/gopki/generator/config.ProfileSubjectAttribute
; usetype crypto/x509/pkix.AttributeTypeAndValue
; useheap HS_S_crypto_x509_pkix_AttributeTypeAndValue
; useheap HS_Int
(define-fun attrName ((P (View S_config_ProfileSubjectAttribute)) (w Int)) String
  (S_config_ProfileSubjectAttribute__Attribute (select (varr P) (+ (voff P) w))))
(define-fun attrOpt ((P (View S_config_ProfileSubjectAttribute)) (w Int)) Bool
  (S_config_ProfileSubjectAttribute__Optional (select (varr P) (+ (voff P) w))))
(define-fun resolvable ((P (View S_config_ProfileSubjectAttribute)) (w Int)) Bool
  (or (isShort (attrName P w)) (isOidStr (attrName P w))))
(define-fun profT ((P (View S_config_ProfileSubjectAttribute)) (w Int)) OidV
  (ite (isShort (attrName P w)) (shortOid (attrName P w)) (parseOid (attrName P w))))
; type of the first attribute of the h-th RDN of the subject in written order
(define-fun subjT ((Sj (View Slice)) (h Int)) OidV
  (let ((rdn (select (varr Sj) (+ (voff Sj) (- (- (vlen Sj) 1) h)))))
  (let ((ty (S_crypto_x509_pkix_AttributeTypeAndValue__Type (select (select HS_S_crypto_x509_pkix_AttributeTypeAndValue_0 (base rdn)) (off rdn)))))
    (oidv (select HS_Int_0 (base ty)) (off ty) (len ty)))))
(define-fun-rec resFrom ((P (View S_config_ProfileSubjectAttribute)) (k Int)) Bool
  (or (< k 0) (>= k (vlen P)) (and (resolvable P k) (resFrom P (+ k 1)))))
; sub: the subject types from h on, in written order, are an in-order selection of the profile types from w on (greedy)
(define-fun-rec sub ((P (View S_config_ProfileSubjectAttribute)) (Sj (View Slice)) (h Int) (w Int)) Bool
  (ite (or (< h 0) (>= h (vlen Sj))) true
    (ite (or (< w 0) (>= w (vlen P))) false
      (ite (= (profT P w) (subjT Sj h)) (sub P Sj (+ h 1) (+ w 1)) (sub P Sj h (+ w 1))))))
(define-fun-rec memS ((Sj (View Slice)) (o OidV) (h Int)) Bool
  (and (<= 0 h) (< h (vlen Sj)) (or (= (subjT Sj h) o) (memS Sj o (+ h 1)))))
; req: every non-optional profile attribute from i on occurs in the subject
(define-fun-rec req ((P (View S_config_ProfileSubjectAttribute)) (Sj (View Slice)) (i Int)) Bool
  (or (< i 0) (>= i (vlen P)) (and (or (attrOpt P i) (memS Sj (profT P i) 0)) (req P Sj (+ i 1)))))
