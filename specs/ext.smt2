; ext.smt2 - C06/C07/C16: extension identifiers (RFC 5280 4.2, RFC 6960 4.2.2.2.1, CommonPKI 2.0 T27) and value specs
; requires der.smt2 x509.smt2 deepbase.smt2
(define-fun oid4e ((a Int) (b Int) (c Int) (d Int)) OidV (osnoc (osnoc (osnoc (osnoc onil a) b) c) d))
; index = cert.ExtensionOid: 0 SKI, 1 KU, 2 EKU, 3 AKI, 4 BC, 5 SAN, 6 CP, 7 NameConstraints, 8 CRLDP, 9 AIA, 10 CRLNumber, 11 admission, 12 ocsp-nocheck
(define-fun specExtOid ((i Int)) OidV
  (ite (= i 0) (oid4e 2 5 29 14) (ite (= i 1) (oid4e 2 5 29 15) (ite (= i 2) (oid4e 2 5 29 37) (ite (= i 3) (oid4e 2 5 29 35)
  (ite (= i 4) (oid4e 2 5 29 19) (ite (= i 5) (oid4e 2 5 29 17) (ite (= i 6) (oid4e 2 5 29 32) (ite (= i 7) (oid4e 2 5 29 30)
  (ite (= i 8) (oid4e 2 5 29 31) (ite (= i 9) (osnoc (osnoc (osnoc (osnoc (osnoc (oid4e 1 3 6 1) 5) 5) 7) 1) 1)
  (ite (= i 10) (oid4e 2 5 29 20) (ite (= i 11) (osnoc (osnoc (oid4e 1 3 36 8) 3) 3)
  (osnoc (osnoc (osnoc (osnoc (osnoc (osnoc (oid4e 1 3 6 1) 5) 5) 7) 48) 1) 5))))))))))))))
; key usage (RFC 5280 4.2.1.3, X.690 11.2.2): a named bit list is encoded without trailing zero bits
(define-fun namedBitLen ((b (_ BitVec 8))) Int
  (ite (not (= (bvand b #x01) #x00)) 8 (ite (not (= (bvand b #x02) #x00)) 7 (ite (not (= (bvand b #x04) #x00)) 6
  (ite (not (= (bvand b #x08) #x00)) 5 (ite (not (= (bvand b #x10) #x00)) 4 (ite (not (= (bvand b #x20) #x00)) 3
  (ite (not (= (bvand b #x40) #x00)) 2 (ite (not (= (bvand b #x80) #x00)) 1 0)))))))))
(define-fun namedBytes ((b (_ BitVec 8))) Bytes (ite (= b #x00) bempty (bunit b)))
; GeneralName (RFC 5280 4.2.1.6): context-specific primitive [1] rfc822Name, [2] dNSName, [6] URI, [7] iPAddress
(declare-fun gnDer (Any) Bytes)      ; DER of a cert.GeneralName value (interface contract of marshal)
(define-fun-rec catNames ((v (View Any)) (i Int) (acc Bytes)) Bytes
  (ite (or (< i 0) (>= i (vlen v))) acc (catNames v (+ i 1) (bcat acc (gnDer (select (varr v) (+ (voff v) i)))))))
; deep value of a []byte holding the given bytes / of an AuthorityKeyIdentifier struct holding the given key identifier
(declare-fun deepS_S_cert_AuthorityKeyIdentifier (Deep) Deep)
(define-fun akiDeep ((keyid Bytes)) Deep (deepS_S_cert_AuthorityKeyIdentifier (deepBytes keyid)))
; authority information access (RFC 5280 4.2.2.1): SEQUENCE OF SEQUENCE { id-ad-ocsp, accessLocation }
; usetype github.com/wokdav/gopki/generator/cert.AccessDescription
(define-fun oidAdOcsp () OidV (osnoc (osnoc (osnoc (osnoc (osnoc (oid4e 1 3 6 1) 5) 5) 7) 48) 1))
(define-fun-rec catAia ((v (View S_cert_AccessDescription)) (i Int) (acc Bytes)) Bytes
  (ite (or (< i 0) (>= i (vlen v))) acc
     (catAia v (+ i 1) (bcat acc (tlv 0 16 true (bcat (bcat bempty (der (deepOid oidAdOcsp))) (gnDer (S_cert_AccessDescription__AccessLocation (select (varr v) (+ (voff v) i))))))))))
; ---- CommonPKI AdmissionSyntax (C16)
; usetype github.com/wokdav/gopki/generator/cert.Admissions
; usetype github.com/wokdav/gopki/generator/cert.ProfessionInfo
(define-fun-rec catItems ((v (View String)) (i Int) (acc Bytes)) Bytes
  (ite (or (< i 0) (>= i (vlen v))) acc (catItems v (+ i 1) (bcat acc (derField (deepv_String (select (varr v) (+ (voff v) i))) "utf8")))))
(declare-fun piDer (S_cert_ProfessionInfo) Bytes)    ; DER of one ProfessionInfo (defined by ProfessionInfo.marshal's contract)
(declare-fun axDer (S_cert_Admissions) Bytes)        ; DER of one Admissions element
(define-fun-rec catPi ((v (View S_cert_ProfessionInfo)) (i Int) (acc Bytes)) Bytes
  (ite (or (< i 0) (>= i (vlen v))) acc (catPi v (+ i 1) (bcat acc (piDer (select (varr v) (+ (voff v) i)))))))
(define-fun-rec catAx ((v (View S_cert_Admissions)) (i Int) (acc Bytes)) Bytes
  (ite (or (< i 0) (>= i (vlen v))) acc (catAx v (+ i 1) (bcat acc (axDer (select (varr v) (+ (voff v) i)))))))
; basic constraints: the DER of the struct {IsCa bool optional; Pathlen int optional} as encoding/asn1 writes it
(declare-fun deepS_S_cert_BasicConstraints (Deep Deep) Deep)
(define-fun bcDer ((ca Bool) (pathLen Int)) Bytes (der (deepS_S_cert_BasicConstraints (deepv_Bool ca) (deepv_Int pathLen))))
; RFC 5280 4.2.1.9: BasicConstraints ::= SEQUENCE { cA BOOLEAN DEFAULT FALSE, pathLenConstraint INTEGER (0..MAX) OPTIONAL }
(define-fun bcSpec ((ca Bool) (hasLen Bool) (n Int)) Bytes
  (tlv 0 16 true (bcat (ite ca (tlv 0 1 false (bunit #xff)) bempty) (ite hasLen (der (deepv_Int n)) bempty))))
; encoding/asn1 on struct{IsCa bool "optional"; Pathlen int "optional"}: a field that holds its zero value is left out
(assert (forall ((ca Bool) (n Int)) (! (= (der (deepS_S_cert_BasicConstraints (deepv_Bool ca) (deepv_Int n))) (bcSpec ca (not (= n 0)) n))
  :pattern ((deepS_S_cert_BasicConstraints (deepv_Bool ca) (deepv_Int n))))))
; extended key usage purposes (RFC 5280 4.2.1.12), index = cert.ExtKeyUsage
(define-fun ekuBase () OidV (osnoc (osnoc (osnoc (osnoc (oid4e 1 3 6 1) 5) 5) 7) 3))
(define-fun specEkuOid ((i Int)) OidV
  (ite (= i 0) (osnoc ekuBase 1) (ite (= i 1) (osnoc ekuBase 2) (ite (= i 2) (osnoc ekuBase 3) (ite (= i 3) (osnoc ekuBase 4) (ite (= i 4) (osnoc ekuBase 8) (osnoc ekuBase 9)))))))
