; time.smt2 - time.Time as an opaque sort observed through comparisons; the clock is world state
; usetype time.Time
; requires strings.smt2
; requires names.smt2
(declare-fun after (O_time_Time O_time_Time) Bool)
(declare-fun nowAt (Int) O_time_Time)          ; k-th reading of the clock during the call
(declare-fun utc (O_time_Time) O_time_Time)
(declare-fun addDate (O_time_Time Int Int Int) O_time_Time)
(assert (forall ((a O_time_Time)) (not (after a a))))
(assert (forall ((a O_time_Time) (b O_time_Time) (c O_time_Time)) (=> (and (after a b) (after b c)) (after a c))))
(assert (forall ((a O_time_Time) (b O_time_Time)) (=> (after a b) (not (after b a)))))
; calendar: dates of the form YYYY-MM-DD read at midnight in a location; AddDate is calendar addition
(declare-fun isDate (String) Bool)
(declare-fun civil (String Int) O_time_Time)
(declare-fun yearOf (O_time_Time) Int)
(assert (forall ((s String) (l Int)) (=> (isDate s) (and (<= 0 (yearOf (civil s l))) (<= (yearOf (civil s l)) 9999)))))
; the duration grammar of duration.json: ^(([0-9]+)y)?(([0-9]+)m)?(([0-9]+)d)?$ ; groups 2, 4, 6 are the digit runs
(declare-fun durY (String) String) (declare-fun durM (String) String) (declare-fun durD (String) String)
(define-fun ival ((s String)) Int (ite (= s "") 0 (intval s)))
(assert (not (isInt "")))
