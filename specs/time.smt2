; time.smt2 - time.Time as an opaque sort observed through comparisons; the clock is world state
; usetype time.Time
(declare-fun after (O_time_Time O_time_Time) Bool)
(declare-fun nowAt (Int) O_time_Time)          ; k-th reading of the clock during the call
(declare-fun utc (O_time_Time) O_time_Time)
(declare-fun addDate (O_time_Time Int Int Int) O_time_Time)
(assert (forall ((a O_time_Time)) (not (after a a))))
(assert (forall ((a O_time_Time) (b O_time_Time) (c O_time_Time)) (=> (and (after a b) (after b c)) (after a c))))
(assert (forall ((a O_time_Time) (b O_time_Time)) (=> (after a b) (not (after b a)))))
