; ec.smt2 - C17/C05/C14: elliptic-curve keys, named curves and PKCS#8 at spec level
; requires bytescopy.smt2 keys.smt2
; curves are identified by cert.KeyAlgorithm numbers 4..13 (P224 P256 P384 P521 bpP256r1 bpP384r1 bpP512r1 bpP256t1 bpP384t1 bpP512t1)
(declare-fun curveId (Any) Int)              ; which named curve an elliptic.Curve value is
(declare-fun curveOrder (Int) Int)           ; group order n of a named curve
(declare-fun curveBytes (Int) Int)           ; ceil(bitlen(n)/8)
(declare-fun sbmX (Int Int) Int)             ; x coordinate of scalar * G on a curve
(declare-fun sbmY (Int Int) Int)
(declare-fun bitlen (Int) Int)
(assert (forall ((c Int)) (! (and (> (curveOrder c) 0) (= (curveBytes c) (div (+ (bitlen (curveOrder c)) 7) 8)) (> (curveBytes c) 0)) :pattern ((curveOrder c)))))
; curve OIDs (RFC 5480 2.1.1.1, RFC 5639 4.1)
(define-fun specCurveOid ((c Int)) OidV
  (ite (= c 4) (osnoc (osnoc (osnoc (osnoc (osnoc onil 1) 3) 132) 0) 33)
  (ite (= c 5) (osnoc (osnoc (osnoc (osnoc (osnoc (osnoc (osnoc onil 1) 2) 840) 10045) 3) 1) 7)
  (ite (= c 6) (osnoc (osnoc (osnoc (osnoc (osnoc onil 1) 3) 132) 0) 34)
  (ite (= c 7) (osnoc (osnoc (osnoc (osnoc (osnoc onil 1) 3) 132) 0) 35)
  (let ((bp (osnoc (osnoc (osnoc (osnoc (osnoc (osnoc (osnoc (osnoc (osnoc onil 1) 3) 36) 3) 3) 2) 8) 1) 1)))
  (ite (= c 8) (osnoc bp 7) (ite (= c 9) (osnoc bp 11) (ite (= c 10) (osnoc bp 13) (ite (= c 11) (osnoc bp 8) (ite (= c 12) (osnoc bp 12) (osnoc bp 14))))))))))))
(define-fun curveOfOid ((o OidV)) Int
  (ite (= o (specCurveOid 4)) 4 (ite (= o (specCurveOid 5)) 5 (ite (= o (specCurveOid 6)) 6 (ite (= o (specCurveOid 7)) 7
  (ite (= o (specCurveOid 8)) 8 (ite (= o (specCurveOid 9)) 9 (ite (= o (specCurveOid 10)) 10 (ite (= o (specCurveOid 11)) 11
  (ite (= o (specCurveOid 12)) 12 (ite (= o (specCurveOid 13)) 13 (- 1))))))))))))
(declare-fun curveName (Int) String)         ; crypto/elliptic CurveParams.Name of the ten curves
(assert (and (= (curveName 4) "P-224") (= (curveName 5) "P-256") (= (curveName 6) "P-384") (= (curveName 7) "P-521")
  (= (curveName 8) "brainpoolP256r1") (= (curveName 9) "brainpoolP384r1") (= (curveName 10) "brainpoolP512r1")
  (= (curveName 11) "brainpoolP256t1") (= (curveName 12) "brainpoolP384t1") (= (curveName 13) "brainpoolP512t1")))
(declare-fun pow256 (Int) Int)
(declare-fun bePad (Int Int) Bytes)          ; value as exactly n big-endian bytes
(assert (forall ((c Int)) (! (<= (curveOrder c) (pow256 (curveBytes c))) :pattern ((curveBytes c)))))
; (guarded: FillBytes writes a non-negative value that fits; unguarded, v = -1 contradicts be >= 0 of bytescopy.smt2 and
; every goal over these preludes was provable by a solver that found the contradiction - found with seeded C08-5)
(assert (forall ((v Int) (n Int)) (! (=> (and (>= v 0) (< v (pow256 n))) (= (be (bePad v n)) v)) :pattern ((bePad v n)))))
(declare-fun ecPoint (Int Int Int) Bytes)    ; uncompressed point of a curve
(declare-fun pkcs1priv (Int) Bytes)          ; PKCS#1 DER of an RSA private key object
(declare-fun pkcs1pub (Int Int) Bytes)       ; PKCS#1 RSAPublicKey DER of (modulus, public exponent)
(assert (forall ((v Int) (n Int)) (! (=> (>= n 0) (= (blen (bePad v n)) n)) :pattern ((bePad v n)))))
(declare-fun onCurve (Int Int Int) Bool)    ; the point satisfies the curve equation (and is not the point at infinity)
(assert (forall ((c Int) (d Int)) (! (=> (and (< 0 d) (< d (curveOrder c))) (onCurve c (sbmX c d) (sbmY c d))) :pattern ((sbmX c d)))))
(declare-fun isPkcs1 (Bytes) Bool)           ; x509.ParsePKCS1PrivateKey accepts the bytes
(assert (forall ((k Int)) (! (isPkcs1 (pkcs1priv k)) :pattern ((pkcs1priv k)))))
; (kept out of bytes.smt2: with it z3 answers unknown on goals that need model-based instantiation)
(assert (forall ((a (Array Int (_ BitVec 8))) (o Int) (n Int)) (! (=> (>= n 0) (= (blen (bytesv a o n)) n)) :pattern ((bytesv a o n)))))
