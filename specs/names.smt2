; names.smt2 - C03/C09: attribute short names (certificate-example.yaml / X.520) and dotted OIDs
; requires base.smt2
(define-fun isShort ((n String)) Bool
  (or (= n "C") (= n "O") (= n "OU") (= n "CN") (= n "SERIALNUMBER") (= n "L") (= n "ST") (= n "STREET") (= n "POSTALCODE")))
(define-fun oid4 ((a Int) (b Int) (c Int) (d Int)) OidV (osnoc (osnoc (osnoc (osnoc onil a) b) c) d))
(define-fun shortOid ((n String)) OidV
  (ite (= n "C") (oid4 2 5 4 6) (ite (= n "O") (oid4 2 5 4 10) (ite (= n "OU") (oid4 2 5 4 11) (ite (= n "CN") (oid4 2 5 4 3)
  (ite (= n "SERIALNUMBER") (oid4 2 5 4 5) (ite (= n "L") (oid4 2 5 4 7) (ite (= n "ST") (oid4 2 5 4 8) (ite (= n "STREET") (oid4 2 5 4 9)
  (ite (= n "POSTALCODE") (oid4 2 5 4 17) onil))))))))))
; dotted-decimal OID strings: parsed value and well-formedness are functions of the text (cert.OidFromString)
(declare-fun isOidStr (String) Bool)
(declare-fun parseOid (String) OidV)
(declare-fun count (String String) Int)
(declare-fun splitPart (String String Int) String)     ; k-th piece of strings.Split(s, sep)
(assert (forall ((s String) (p String)) (! (>= (count s p) 0) :pattern ((count s p)))))
(declare-fun isInt (String) Bool)
(declare-fun intval (String) Int)
; every dot-separated piece from k on is a decimal number that fits an int
(define-fun-rec allIntFrom ((s String) (k Int) (n Int)) Bool
  (or (< k 0) (>= k n) (and (isInt (splitPart s "." k)) (allIntFrom s (+ k 1) n))))
; ---- subject strings (C03): one RDN per KEY=value piece, attribute type by short name or dotted OID
(declare-fun trimSpace (String) String)
(declare-fun beforeFirst (String String) String)   ; text before the first occurrence of the separator
(declare-fun afterFirst (String String) String)    ; text after it
(define-fun rdnKey ((a String)) String (trimSpace (beforeFirst (trimSpace a) "=")))
(define-fun rdnVal ((a String)) String (afterFirst (trimSpace a) "="))
(define-fun rdnOk ((a String)) Bool (and (>= (count (trimSpace a) "=") 1) (or (isShort (rdnKey a)) (isOidStr (rdnKey a)))))
(define-fun rdnType ((a String)) OidV (ite (isShort (rdnKey a)) (shortOid (rdnKey a)) (parseOid (rdnKey a))))
