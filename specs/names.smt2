; names.smt2 - C03/C09: attribute short names (certificate-example.yaml / X.520) and dotted OIDs
; requires base.smt2
(define-fun isShort ((n String)) Bool
  (or (= n "C") (= n "O") (= n "OU") (= n "CN") (= n "SERIALNUMBER") (= n "L") (= n "ST") (= n "STREET") (= n "POSTALCODE")))
(define-fun oid4 ((a Int) (b Int) (c Int) (d Int)) OidV (osnoc (osnoc (osnoc (osnoc onil a) b) c) d))
(define-fun shortOid ((n String)) OidV
  (ite (= n "C") (oid4 2 5 4 6) (ite (= n "O") (oid4 2 5 4 10) (ite (= n "OU") (oid4 2 5 4 11) (ite (= n "CN") (oid4 2 5 4 3)
  (ite (= n "SERIALNUMBER") (oid4 2 5 4 5) (ite (= n "L") (oid4 2 5 4 7) (ite (= n "ST") (oid4 2 5 4 8) (ite (= n "STREET") (oid4 2 5 4 9)
  (ite (= n "POSTALCODE") (oid4 2 5 4 17) onil))))))))))
; dotted-decimal OID strings: parsed value and well-formedness are functions of the text (cert.OidFromString)
(declare-fun isOidStr (String) Bool)
(declare-fun parseOid (String) OidV)
