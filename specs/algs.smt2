; algs.smt2 - C05/C01/C02: the documented algorithm names (certificate-example.yaml, certificate.json enums) and the
; identifiers of RFC 3279 / 4055 / 5758 / 5480 / 5639. Enum order of cert.KeyAlgorithm: RSA1024 RSA2048 RSA4096 RSA8192 P224 P256
; P384 P521 BrainpoolP256r1 P384r1 P512r1 P256t1 P384t1 P512t1; of cert.SignatureAlgorithm: RSAwithSHA1/256/384/512, ECDSAwithSHA1/256/384/512.
; requires base.smt2
(define-fun specKeyAlg ((n String)) Int
  (ite (= n "RSA-1024") 0 (ite (= n "RSA-2048") 1 (ite (= n "RSA-4096") 2 (ite (= n "RSA-8192") 3
  (ite (= n "P-224") 4 (ite (= n "P-256") 5 (ite (= n "P-384") 6 (ite (= n "P-521") 7
  (ite (= n "brainpoolP256r1") 8 (ite (= n "brainpoolP384r1") 9 (ite (= n "brainpoolP512r1") 10
  (ite (= n "brainpoolP256t1") 11 (ite (= n "brainpoolP384t1") 12 (ite (= n "brainpoolP512t1") 13 (- 1))))))))))))))))
(define-fun specSigAlg ((n String)) Int
  (ite (= n "RSAwithSHA1") 0 (ite (= n "RSAwithSHA256") 1 (ite (= n "RSAwithSHA384") 2 (ite (= n "RSAwithSHA512") 3
  (ite (= n "ECDSAwithSHA1") 4 (ite (= n "ECDSAwithSHA256") 5 (ite (= n "ECDSAwithSHA384") 6 (ite (= n "ECDSAwithSHA512") 7 (- 1))))))))))
; requires strings.smt2
(assert (and (hasPrefix "RSA-1024" "RSA") (hasPrefix "RSA-2048" "RSA") (hasPrefix "RSA-4096" "RSA") (hasPrefix "RSA-8192" "RSA")))
(assert (not (or (hasPrefix "" "RSA") (hasPrefix "P-224" "RSA") (hasPrefix "P-256" "RSA") (hasPrefix "P-384" "RSA") (hasPrefix "P-521" "RSA")
  (hasPrefix "brainpoolP256r1" "RSA") (hasPrefix "brainpoolP384r1" "RSA") (hasPrefix "brainpoolP512r1" "RSA")
  (hasPrefix "brainpoolP256t1" "RSA") (hasPrefix "brainpoolP384t1" "RSA") (hasPrefix "brainpoolP512t1" "RSA"))))
