; keys.smt2 - C05/C14/C17: keys and SubjectPublicKeyInfo at spec level
; requires x509.smt2
(declare-fun spkiDeep (Any) Deep)          ; the SubjectPublicKeyInfo (RFC 5480 / RFC 3279) of a private key's public half
(declare-fun keyAlgOf (Any) Int)           ; cert.KeyAlgorithm a key belongs to (modulus length / named curve)
(declare-fun isRsaKey (Any) Bool)
(declare-fun isEcKey (Any) Bool)
(define-fun-rec pow2 ((n Int)) Int (ite (<= n 0) 1 (* 2 (pow2 (- n 1)))))
(declare-fun randBelow (Int Int) Int)      ; k-th draw below a bound
(assert (forall ((k Int) (m Int)) (=> (> m 0) (and (<= 0 (randBelow k m)) (< (randBelow k m) m)))))
