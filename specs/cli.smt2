; cli.smt2 - C10/C11: the sign command
; requires strings.smt2
; usetype github.com/wokdav/gopki/generator/db.Change
(define-fun-rec anyRepl ((v (View S_db_Change)) (i Int)) Bool
  (and (< 0 i) (<= i (vlen v)) (or (= (S_db_Change__Change (select (varr v) (+ (voff v) (- i 1)))) #x02) (anyRepl v (- i 1)))))
