; bytescopy.smt2 - byte buffers: copy, zero padding, big-endian values (C17)
; requires bytes.smt2
; ---- byte buffers (C17): copy, zero padding, big-endian values. The facts below hold for the recursive definition
; bytesR of specs/byteslemmas.smt2 (proved there by explicit induction: lemma units bytes_*).
; copy of m bytes from x[xo..] to a[at..]: uninterpreted, characterised cell by cell (a recursive definition blocks
; the instantiation of the byte-string lemma below)
(declare-fun copyInto__BitVec8 ((Array Int (_ BitVec 8)) Int (Array Int (_ BitVec 8)) Int Int) (Array Int (_ BitVec 8)))
(assert (forall ((a (Array Int (_ BitVec 8))) (at Int) (x (Array Int (_ BitVec 8))) (xo Int) (m Int) (k Int))
  (! (= (select (copyInto__BitVec8 a at x xo m) k) (ite (and (<= at k) (< k (+ at m))) (select x (+ xo (- k at))) (select a k))) :pattern ((select (copyInto__BitVec8 a at x xo m) k)))))
(declare-fun bzeros (Int) Bytes)           ; n zero bytes
(declare-fun be (Bytes) Int)               ; big-endian value of a byte string
; copying m bytes to position a of a buffer keeps the first a bytes and appends the copied ones
(assert (forall ((d (Array Int (_ BitVec 8))) (s (Array Int (_ BitVec 8))) (a Int) (so Int) (m Int))
  (! (=> (and (<= 0 a) (<= 0 m)) (= (bytesv (copyInto__BitVec8 d a s so m) 0 (+ a m)) (bcat (bytesv d 0 a) (bytesv s so m)))) :pattern ((copyInto__BitVec8 d a s so m)))))
; leading zero bytes do not change the big-endian value
(assert (forall ((n Int) (x Bytes)) (! (= (be (bcat (bzeros n) x)) (be x)) :pattern ((bcat (bzeros n) x)))))
(assert (forall ((a (Array Int (_ BitVec 8))) (o Int) (n Int))
  (! (=> (and (>= n 1) (= (select a o) #x00)) (= (be (bytesv a (+ o 1) (- n 1))) (be (bytesv a o n)))) :pattern ((bytesv a (+ o 1) (- n 1))))))
(assert (forall ((x Bytes)) (! (>= (be x) 0) :pattern ((be x)))))
