; base.smt2 - symbols the contract language's built-ins refer to (bytes(), oidv(), oid("..."), deep values of boxed arguments)
; An OBJECT IDENTIFIER value is the list of its arcs (snoc list, so that a literal OID is a ground term).
(declare-datatypes ((OidV 0)) (((onil) (osnoc (oinit OidV) (olast Int)))))
(define-fun-rec oidv ((a (Array Int Int)) (o Int) (n Int)) OidV
  (ite (<= n 0) onil (osnoc (oidv a o (- n 1)) (select a (+ o (- n 1))))))
(declare-fun bytesv ((Array Int (_ BitVec 8)) Int Int) Bytes)
(declare-fun deepOf (Any) Deep)
(define-fun nilSlice () Slice (mkslice 0 0 0 0))
