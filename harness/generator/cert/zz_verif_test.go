package cert

// Harness tests of /verif, injected with go test -overlay (never written into the repository).

import (
	"encoding/asn1"
	"fmt"
	"testing"
)

// TestVerifFindingPathLenZero shows the known finding of C07 on the real code: a CA certificate configured with
// pathLen 0 gets basic constraints without a pathLenConstraint. The value is read back with an independent struct
// whose default marks absence.
func TestVerifFindingPathLenZero(t *testing.T) {
	ext := NewBasicConstraints(false, true, 0)
	var bc struct {
		IsCa    bool `asn1:"optional"`
		PathLen int  `asn1:"optional,default:-1"`
	}
	rest, err := asn1.Unmarshal(ext.Value, &bc)
	if err != nil || len(rest) != 0 {
		fmt.Printf("VERIF-REPLAY: not-reproduced basic constraints do not decode: %v\n", err)
		return
	}
	if bc.IsCa && bc.PathLen == -1 {
		fmt.Printf("VERIF-REPLAY: confirmed NewBasicConstraints(false, true, 0) = % x has no pathLenConstraint\n", ext.Value)
		return
	}
	fmt.Printf("VERIF-REPLAY: not-reproduced decoded ca=%v pathLen=%d\n", bc.IsCa, bc.PathLen)
}
