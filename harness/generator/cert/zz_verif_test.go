package cert

// Harness tests of /verif, injected with go test -overlay (never written into the repository).

import (
	"crypto/ecdsa"
	"crypto/elliptic"
	"crypto/sha1"
	"crypto/x509/pkix"
	"encoding/asn1"
	"fmt"
	"math/big"
	"testing"

	"github.com/keybase/go-crypto/brainpool"
)

// TestVerifFindingPathLenZero shows the known finding of C07 on the real code: a CA certificate configured with
// pathLen 0 gets basic constraints without a pathLenConstraint. The value is read back with an independent struct
// whose default marks absence.
func TestVerifFindingPathLenZero(t *testing.T) {
	ext := NewBasicConstraints(false, true, 0)
	var bc struct {
		IsCa    bool `asn1:"optional"`
		PathLen int  `asn1:"optional,default:-1"`
	}
	rest, err := asn1.Unmarshal(ext.Value, &bc)
	if err != nil || len(rest) != 0 {
		fmt.Printf("VERIF-REPLAY: not-reproduced basic constraints do not decode: %v\n", err)
		return
	}
	if bc.IsCa && bc.PathLen == -1 {
		fmt.Printf("VERIF-REPLAY: confirmed NewBasicConstraints(false, true, 0) = % x has no pathLenConstraint\n", ext.Value)
		return
	}
	fmt.Printf("VERIF-REPLAY: not-reproduced decoded ca=%v pathLen=%d\n", bc.IsCa, bc.PathLen)
}

// ---- bounded stand-in for the extension constructors (C06, C07) --------------------------------------------------
// Every value is read back with a small DER walker that shares nothing with the package under test but encoding/asn1's
// RawValue parser. Bounds are stated per constructor. The combination (ca, pathLen 0) is the recorded known finding of
// C07 and is left out here.

type vfTLV struct {
	Class, Tag int
	Compound   bool
	Bytes      []byte
}

// vfSeq splits DER content into its TLVs.
func vfSeq(b []byte) ([]vfTLV, error) {
	var out []vfTLV
	for len(b) > 0 {
		var rv asn1.RawValue
		rest, err := asn1.Unmarshal(b, &rv)
		if err != nil {
			return nil, err
		}
		out = append(out, vfTLV{rv.Class, rv.Tag, rv.IsCompound, rv.Bytes})
		b = rest
	}
	return out, nil
}

func vfOne(b []byte) (vfTLV, error) {
	s, err := vfSeq(b)
	if err != nil {
		return vfTLV{}, err
	}
	if len(s) != 1 {
		return vfTLV{}, fmt.Errorf("%d top-level values", len(s))
	}
	return s[0], nil
}

func vfOidOf(t vfTLV) string {
	var o asn1.ObjectIdentifier
	full, _ := asn1.Marshal(asn1.RawValue{Class: t.Class, Tag: t.Tag, IsCompound: t.Compound, Bytes: t.Bytes})
	if _, err := asn1.Unmarshal(full, &o); err != nil {
		return "?"
	}
	return o.String()
}

func TestVerifBoundedExtensions(t *testing.T) {
	n := 0
	bad := func(f string, a ...any) { fmt.Printf("VERIF-BOUNDED: violation "+f+"\n", a...) }
	hdr := func(what string, ext pkixExt, critical bool, oid string) bool {
		if ext.Critical != critical || ext.Id.String() != oid {
			bad("%s: critical=%v id=%v, configured critical=%v, the extension is %s", what, ext.Critical, ext.Id, critical, oid)
			return false
		}
		return true
	}
	// key usage: all 256 flag bytes x critical
	for f := 0; f < 256; f++ {
		for _, crit := range []bool{false, true} {
			n++
			ext := NewKeyUsage(crit, KeyUsage(f))
			if !hdr("keyUsage", pkixExt{ext.Id, ext.Critical, ext.Value}, crit, "2.5.29.15") {
				return
			}
			v, err := vfOne(ext.Value)
			if err != nil || v.Class != 0 || v.Tag != 3 || v.Compound || len(v.Bytes) < 1 {
				bad("keyUsage(%#x): not a BIT STRING: % x (%v)", f, ext.Value, err)
				return
			}
			want := f & 0xFE
			last := -1
			for i := 0; i < 8; i++ {
				if want&(0x80>>i) != 0 {
					last = i
				}
			}
			unused, data := int(v.Bytes[0]), v.Bytes[1:]
			got, bits := 0, len(data)*8-unused
			if len(data) > 0 {
				got = int(data[0])
			}
			if got != want || bits != last+1 || len(data) > 1 {
				bad("keyUsage(%#x): encoded flags %#x with %d bits, RFC 5280 named bit list wants %#x with %d bits", f, got, bits, want, last+1)
				return
			}
		}
	}
	// subjectAltName: all lists of length 0..3 over six names
	type nm struct {
		g   GeneralName
		tag int
		b   []byte
	}
	pool := []nm{{GeneralNameRFC822("a@b.c"), 1, []byte("a@b.c")}, {GeneralNameDNS("x.y"), 2, []byte("x.y")}, {GeneralNameDNS("longer.example.org"), 2, []byte("longer.example.org")},
		{GeneralNameURI("http://u/"), 6, []byte("http://u/")}, {GeneralNameIP{1, 2, 3, 4}, 7, []byte{1, 2, 3, 4}}, {GeneralNameIP{255, 0, 0, 255}, 7, []byte{255, 0, 0, 255}}}
	var lists [][]nm
	lists = append(lists, nil)
	for _, a := range pool {
		lists = append(lists, []nm{a})
		for _, b := range pool {
			lists = append(lists, []nm{a, b})
			for _, c := range pool {
				lists = append(lists, []nm{a, b, c})
			}
		}
	}
	checkNames := func(what string, tlvs []vfTLV, l []nm) bool {
		if len(tlvs) != len(l) {
			bad("%s: %d names encoded, %d configured", what, len(tlvs), len(l))
			return false
		}
		for i := range l {
			if tlvs[i].Class != 2 || tlvs[i].Tag != l[i].tag || string(tlvs[i].Bytes) != string(l[i].b) {
				bad("%s: name %d read back as [%d] %q, configured [%d] %q", what, i, tlvs[i].Tag, tlvs[i].Bytes, l[i].tag, l[i].b)
				return false
			}
		}
		return true
	}
	for _, l := range lists {
		n++
		var names []GeneralName
		for _, x := range l {
			names = append(names, x.g)
		}
		ext, err := NewSubjectAlternativeName(len(l)%2 == 0, names)
		if err != nil || !hdr("subjectAltName", pkixExt{ext.Id, ext.Critical, ext.Value}, len(l)%2 == 0, "2.5.29.17") {
			bad("subjectAltName: %v", err)
			return
		}
		v, err := vfOne(ext.Value)
		if err != nil || v.Tag != 16 || !v.Compound {
			bad("subjectAltName: not a SEQUENCE: % x", ext.Value)
			return
		}
		tlvs, err := vfSeq(v.Bytes)
		if err != nil || !checkNames("subjectAltName", tlvs, l) {
			return
		}
		// authorityInfoAccess over the same lists: SEQUENCE OF SEQUENCE { id-ad-ocsp, location }
		var ads []AccessDescription
		for _, x := range l {
			ads = append(ads, AccessDescription{Ocsp, x.g})
		}
		aia, err := NewAuthorityInfoAccess(len(l)%2 == 1, ads)
		if err != nil || !hdr("authorityInfoAccess", pkixExt{aia.Id, aia.Critical, aia.Value}, len(l)%2 == 1, "1.3.6.1.5.5.7.1.1") {
			bad("authorityInfoAccess: %v", err)
			return
		}
		v, err = vfOne(aia.Value)
		if err != nil || v.Tag != 16 || !v.Compound {
			bad("authorityInfoAccess: not a SEQUENCE: % x", aia.Value)
			return
		}
		descs, err := vfSeq(v.Bytes)
		if err != nil || len(descs) != len(l) {
			bad("authorityInfoAccess: %d descriptions encoded, %d configured (% x)", len(descs), len(l), aia.Value)
			return
		}
		var locs []vfTLV
		for i, d := range descs {
			parts, err := vfSeq(d.Bytes)
			if err != nil || d.Tag != 16 || len(parts) != 2 || vfOidOf(parts[0]) != "1.3.6.1.5.5.7.48.1" {
				bad("authorityInfoAccess: description %d is not { id-ad-ocsp, location }: % x", i, aia.Value)
				return
			}
			locs = append(locs, parts[1])
		}
		if !checkNames("authorityInfoAccess", locs, l) {
			return
		}
	}
	// basic constraints: ca x pathLen x critical (without the known finding ca && pathLen == 0)
	for _, ca := range []bool{false, true} {
		for _, pl := range []int{0, 1, 2, 3, 127, 128, 255, 256, 65535} {
			n++
			ext := NewBasicConstraints(ca, ca, pl)
			if !hdr("basicConstraints", pkixExt{ext.Id, ext.Critical, ext.Value}, ca, "2.5.29.19") {
				return
			}
			var bc struct {
				IsCa    bool `asn1:"optional"`
				PathLen int  `asn1:"optional,default:-1"`
			}
			if rest, err := asn1.Unmarshal(ext.Value, &bc); err != nil || len(rest) != 0 {
				bad("basicConstraints(%v,%d) does not decode: %v", ca, pl, err)
				return
			}
			wantPl := pl
			if pl == 0 {
				wantPl = -1 // absent; (true, 0) is the recorded finding
			}
			if bc.IsCa != ca || bc.PathLen != wantPl {
				bad("basicConstraints(%v,%d) read back as ca=%v pathLen=%d", ca, pl, bc.IsCa, bc.PathLen)
				return
			}
		}
	}
	// certificate policies: up to two policies, each with one of five qualifier lists
	type qual struct {
		cps     string
		org     string
		numbers []int
		text    string
	}
	quals := [][]qual{nil, {{cps: "http://cps/"}}, {{org: "Org", numbers: []int{1, 2}, text: "notice"}}, {{cps: "http://a/"}, {org: "O", numbers: []int{7}, text: "t"}}, {{org: "O2", numbers: []int{3}, text: "t2"}, {cps: "http://b/"}}}
	polOids := []asn1.ObjectIdentifier{{1, 2, 3}, {2, 5, 29, 32, 0}}
	mkPol := func(oid asn1.ObjectIdentifier, qs []qual) PolicyInfo {
		p := PolicyInfo{ObjectIdentifier: oid}
		for _, q := range qs {
			if q.cps != "" {
				p.Qualifiers = append(p.Qualifiers, PolicyQualifier{QualifierId: asn1.ObjectIdentifier{1, 3, 6, 1, 5, 5, 7, 2, 1}, Cps: q.cps})
			} else {
				p.Qualifiers = append(p.Qualifiers, PolicyQualifier{QualifierId: asn1.ObjectIdentifier{1, 3, 6, 1, 5, 5, 7, 2, 2},
					UserNotice: UserNotice{NoticeRef: NoticeReference{Organization: q.org, NoticeNumbers: q.numbers}, ExplicitText: q.text}})
			}
		}
		return p
	}
	checkPol := func(t vfTLV, oid asn1.ObjectIdentifier, qs []qual) bool {
		parts, err := vfSeq(t.Bytes)
		if err != nil || t.Tag != 16 || len(parts) < 1 || vfOidOf(parts[0]) != oid.String() {
			bad("certificatePolicies: policy %v read back as % x", oid, t.Bytes)
			return false
		}
		if len(qs) == 0 {
			if len(parts) != 1 {
				bad("certificatePolicies: policy %v without qualifiers carries %d extra members", oid, len(parts)-1)
				return false
			}
			return true
		}
		if len(parts) != 2 {
			bad("certificatePolicies: policy %v has %d members, want OID and qualifiers", oid, len(parts))
			return false
		}
		infos, err := vfSeq(parts[1].Bytes)
		if err != nil || len(infos) != len(qs) {
			bad("certificatePolicies: policy %v: %d qualifiers encoded, %d configured", oid, len(infos), len(qs))
			return false
		}
		for i, q := range qs {
			m, err := vfSeq(infos[i].Bytes)
			if err != nil || len(m) != 2 {
				bad("certificatePolicies: policy %v qualifier %d has %d members, want exactly id and qualifier", oid, i, len(m))
				return false
			}
			if q.cps != "" {
				if vfOidOf(m[0]) != "1.3.6.1.5.5.7.2.1" || m[1].Tag != 22 || string(m[1].Bytes) != q.cps {
					bad("certificatePolicies: policy %v qualifier %d read back as %s %q, configured cps %q", oid, i, vfOidOf(m[0]), m[1].Bytes, q.cps)
					return false
				}
				continue
			}
			un, err := vfSeq(m[1].Bytes)
			if vfOidOf(m[0]) != "1.3.6.1.5.5.7.2.2" || err != nil || m[1].Tag != 16 || len(un) != 2 {
				bad("certificatePolicies: policy %v qualifier %d is not a user notice { noticeRef, explicitText }", oid, i)
				return false
			}
			ref, err := vfSeq(un[0].Bytes)
			if err != nil || len(ref) != 2 || string(ref[0].Bytes) != q.org || ref[0].Tag != 12 || string(un[1].Bytes) != q.text || un[1].Tag != 12 {
				bad("certificatePolicies: policy %v user notice read back as org %q text %q, configured %q %q", oid, ref[0].Bytes, un[1].Bytes, q.org, q.text)
				return false
			}
			nums, err := vfSeq(ref[1].Bytes)
			if err != nil || len(nums) != len(q.numbers) {
				bad("certificatePolicies: policy %v notice numbers %d encoded, %d configured", oid, len(nums), len(q.numbers))
				return false
			}
			for k, nv := range nums {
				if nv.Tag != 2 || len(nv.Bytes) != 1 || int(nv.Bytes[0]) != q.numbers[k] {
					bad("certificatePolicies: policy %v notice number %d read back as % x, configured %d", oid, k, nv.Bytes, q.numbers[k])
					return false
				}
			}
		}
		return true
	}
	for i, qa := range quals {
		for j, qb := range quals {
			for npol := 1; npol <= 2; npol++ {
				n++
				pols := []PolicyInfo{mkPol(polOids[0], qa)}
				if npol == 2 {
					pols = append(pols, mkPol(polOids[1], qb))
				} else if j > 0 {
					continue
				}
				ext, err := NewCertificatePolicies((i+j)%2 == 0, pols)
				if err != nil || !hdr("certificatePolicies", pkixExt{ext.Id, ext.Critical, ext.Value}, (i+j)%2 == 0, "2.5.29.32") {
					bad("certificatePolicies: %v", err)
					return
				}
				v, err := vfOne(ext.Value)
				if err != nil || v.Tag != 16 {
					bad("certificatePolicies: not a SEQUENCE: % x", ext.Value)
					return
				}
				ps, err := vfSeq(v.Bytes)
				if err != nil || len(ps) != npol || !checkPol(ps[0], polOids[0], qa) || (npol == 2 && !checkPol(ps[1], polOids[1], qb)) {
					if err != nil || len(ps) != npol {
						bad("certificatePolicies: %d policies encoded, %d configured", len(ps), npol)
					}
					return
				}
			}
		}
	}
	// extended key usage: all lists of length 0..3 over four OIDs
	ekuPool := []asn1.ObjectIdentifier{{1, 3, 6, 1, 5, 5, 7, 3, 1}, {1, 3, 6, 1, 5, 5, 7, 3, 9}, {1, 2, 3, 4}, {2, 5, 29, 37, 0}}
	var ekuLists [][]asn1.ObjectIdentifier
	ekuLists = append(ekuLists, []asn1.ObjectIdentifier{})
	for _, a := range ekuPool {
		ekuLists = append(ekuLists, []asn1.ObjectIdentifier{a})
		for _, b := range ekuPool {
			ekuLists = append(ekuLists, []asn1.ObjectIdentifier{a, b})
			for _, c := range ekuPool {
				ekuLists = append(ekuLists, []asn1.ObjectIdentifier{a, b, c})
			}
		}
	}
	for _, l := range ekuLists {
		n++
		ext, err := NewExtendedKeyUsage(len(l) == 1, l)
		if err != nil || !hdr("extendedKeyUsage", pkixExt{ext.Id, ext.Critical, ext.Value}, len(l) == 1, "2.5.29.37") {
			bad("extendedKeyUsage: %v", err)
			return
		}
		v, err := vfOne(ext.Value)
		if err != nil || v.Tag != 16 {
			bad("extendedKeyUsage: not a SEQUENCE: % x", ext.Value)
			return
		}
		os, err := vfSeq(v.Bytes)
		if err != nil || len(os) != len(l) {
			bad("extendedKeyUsage: %d usages encoded, %d configured", len(os), len(l))
			return
		}
		for i := range l {
			if vfOidOf(os[i]) != l[i].String() {
				bad("extendedKeyUsage: usage %d read back as %s, configured %s", i, vfOidOf(os[i]), l[i])
				return
			}
		}
	}
	// authority key identifier from an explicit id: lengths 1..4 and 20
	for _, id := range [][]byte{{1}, {0, 1}, {1, 2, 3}, {255, 0, 255, 0}, make([]byte, 20)} {
		n++
		ext, err := NewAuthorityKeyIdentifierFromStruct(len(id) == 1, AuthorityKeyIdentifier{KeyIdentifier: id})
		if err != nil || !hdr("authorityKeyIdentifier", pkixExt{ext.Id, ext.Critical, ext.Value}, len(id) == 1, "2.5.29.35") {
			bad("authorityKeyIdentifier: %v", err)
			return
		}
		v, err := vfOne(ext.Value)
		parts, err2 := vfSeq(v.Bytes)
		if err != nil || err2 != nil || v.Tag != 16 || len(parts) != 1 || parts[0].Class != 2 || parts[0].Tag != 0 || string(parts[0].Bytes) != string(id) {
			bad("authorityKeyIdentifier: id % x read back as % x", id, ext.Value)
			return
		}
	}
	// ocspNoCheck
	for _, crit := range []bool{false, true} {
		n++
		ext := NewOcspNoCheck(crit)
		if !hdr("ocspNoCheck", pkixExt{ext.Id, ext.Critical, ext.Value}, crit, "1.3.6.1.5.5.7.48.1.5") || string(ext.Value) != "\x05\x00" {
			bad("ocspNoCheck: value % x", ext.Value)
			return
		}
	}
	fmt.Printf("VERIF-BOUNDED: ok cases=%d\n", n)
}

type pkixExt struct {
	Id       asn1.ObjectIdentifier
	Critical bool
	Value    []byte
}

// TestVerifBoundedKeyIds: subject and authority key identifiers are SHA-1 of the subject's / the issuer's public key
// bits, whatever the names are (equal or different DNs, self-signed or not), for key bit strings of several lengths.
func TestVerifBoundedKeyIds(t *testing.T) {
	n := 0
	sha := func(b []byte) []byte { h := sha1.Sum(b); return h[:] }
	names := []pkix.RDNSequence{nil, {{{Type: asn1.ObjectIdentifier{2, 5, 4, 3}, Value: "A"}}}, {{{Type: asn1.ObjectIdentifier{2, 5, 4, 3}, Value: "B"}}}}
	keys := [][]byte{{1}, {1, 2, 3}, make([]byte, 65), {0xff, 0x00, 0xff}}
	for _, subj := range names {
		for _, iss := range names {
			for _, own := range keys {
				for _, ik := range keys {
					n++
					ctx := &CertificateContext{TbsCertificate: &TbsCertificate{Subject: subj}, Issuer: &IssuerContext{IssuerDn: iss, PublicKeyRaw: ik}}
					ctx.TbsCertificate.PublicKey.PublicKey.Bytes = own
					ski, err := NewSubjectKeyIdentifier(false, ctx)
					if err != nil {
						fmt.Printf("VERIF-BOUNDED: violation subjectKeyIdentifier: %v\n", err)
						return
					}
					v, err := vfOne(ski.Value)
					if err != nil || v.Tag != 4 || string(v.Bytes) != string(sha(own)) || ski.Id.String() != "2.5.29.14" {
						fmt.Printf("VERIF-BOUNDED: violation subjectKeyIdentifier % x is not SHA-1 of the subject key bits % x\n", ski.Value, own)
						return
					}
					aki, err := NewAuthorityKeyIdentifierHash(true, ctx)
					if err != nil {
						fmt.Printf("VERIF-BOUNDED: violation authorityKeyIdentifier: %v\n", err)
						return
					}
					v, err = vfOne(aki.Value)
					parts, err2 := vfSeq(v.Bytes)
					if err != nil || err2 != nil || len(parts) != 1 || parts[0].Class != 2 || parts[0].Tag != 0 || string(parts[0].Bytes) != string(sha(ik)) || !aki.Critical || aki.Id.String() != "2.5.29.35" {
						fmt.Printf("VERIF-BOUNDED: violation authorityKeyIdentifier % x is not SHA-1 of the issuer key bits % x (subject DN %v, issuer DN %v, subject key % x)\n", aki.Value, ik, subj, iss, own)
						return
					}
				}
			}
		}
	}
	fmt.Printf("VERIF-BOUNDED: ok cases=%d\n", n)
}

// TestVerifBoundedKeyRoundTrip: for all ten curves and the boundary scalars of C17 (1, 2, n-2, n-1, values with leading
// zero bytes) a key built directly on the curve implementation is written to PKCS#8 and read back as the same key.
func TestVerifBoundedKeyRoundTrip(t *testing.T) {
	n := 0
	cs := map[string]elliptic.Curve{"P-224": elliptic.P224(), "P-256": elliptic.P256(), "P-384": elliptic.P384(), "P-521": elliptic.P521(),
		"brainpoolP256r1": brainpool.P256r1(), "brainpoolP384r1": brainpool.P384r1(), "brainpoolP512r1": brainpool.P512r1(),
		"brainpoolP256t1": brainpool.P256t1(), "brainpoolP384t1": brainpool.P384t1(), "brainpoolP512t1": brainpool.P512t1()}
	for name, c := range cs {
		N := c.Params().N
		scalars := []*big.Int{big.NewInt(1), big.NewInt(2), new(big.Int).Sub(N, big.NewInt(2)), new(big.Int).Sub(N, big.NewInt(1)),
			big.NewInt(255), new(big.Int).Rsh(N, 9), new(big.Int).Rsh(N, 17)}
		for _, d := range scalars {
			n++
			k := &ecdsa.PrivateKey{D: d}
			k.Curve = c
			k.X, k.Y = c.ScalarBaseMult(d.Bytes())
			der, err := MarshalPKCS8PrivateKey(k)
			if err != nil {
				fmt.Printf("VERIF-BOUNDED: violation %s d=%v: cannot be written: %v\n", name, d, err)
				return
			}
			back, err := ParsePKCS8PrivateKey(der)
			if err != nil {
				fmt.Printf("VERIF-BOUNDED: violation %s d=%v: written key is not read back: %v\n", name, d, err)
				return
			}
			b, ok := back.(*ecdsa.PrivateKey)
			if !ok || b.D.Cmp(d) != 0 || b.X.Cmp(k.X) != 0 || b.Y.Cmp(k.Y) != 0 || b.Curve.Params().Name != c.Params().Name || b.Curve.Params().N.Cmp(N) != 0 || b.Curve.Params().B.Cmp(c.Params().B) != 0 || b.Curve.Params().Gx.Cmp(c.Params().Gx) != 0 {
				fmt.Printf("VERIF-BOUNDED: violation %s d=%v: read back as a different key (%T)\n", name, d, back)
				return
			}
		}
	}
	fmt.Printf("VERIF-BOUNDED: ok cases=%d\n", n)
}
