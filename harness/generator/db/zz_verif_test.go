package db

// Replay and bounded stand-in harness of /verif for package db. Injected with `go test -overlay`; never written to /repo.

import (
	"crypto/ecdsa"
	"crypto/elliptic"
	"crypto/rand"
	"encoding/json"
	"errors"
	"fmt"
	"os"
	"testing"
	"time"

	"github.com/wokdav/gopki/generator/cert"
	"github.com/wokdav/gopki/generator/config"
)

type vfFakeDB struct {
	cfgs    map[string]*config.CertificateContent
	metas   map[string]*Metadata
	arts    map[string]*BuildArtifact
	cfgErr  map[string]error
	metaErr map[string]error
	artErr  map[string]error
}

func newVfFakeDB() *vfFakeDB {
	return &vfFakeDB{cfgs: map[string]*config.CertificateContent{}, metas: map[string]*Metadata{}, arts: map[string]*BuildArtifact{},
		cfgErr: map[string]error{}, metaErr: map[string]error{}, artErr: map[string]error{}}
}
func (d *vfFakeDB) Open() error                               { return nil }
func (d *vfFakeDB) Close() error                              { return nil }
func (d *vfFakeDB) NumEntities() int                          { return len(d.cfgs) }
func (d *vfFakeDB) RootEntities() []string                    { return nil }
func (d *vfFakeDB) GetSubscribers(string) []string            { return nil }
func (d *vfFakeDB) AddProfile(config.CertificateProfile) error { return nil }
func (d *vfFakeDB) GetProfile(string) (*config.CertificateProfile, error) {
	return nil, nil
}
func (d *vfFakeDB) PutConfig(a string, c config.CertificateContent) error { d.cfgs[a] = &c; return nil }
func (d *vfFakeDB) GetConfig(a string) (*config.CertificateContent, error) {
	if e := d.cfgErr[a]; e != nil {
		return nil, e
	}
	return d.cfgs[a], nil
}
func (d *vfFakeDB) PutBuildArtifact(a string, b BuildArtifact) error { d.arts[a] = &b; return nil }
func (d *vfFakeDB) GetBuildArtifact(a string) (*BuildArtifact, error) {
	if e := d.artErr[a]; e != nil {
		return nil, e
	}
	return d.arts[a], nil
}
func (d *vfFakeDB) GetMetadata(a string) (*Metadata, error) {
	if e := d.metaErr[a]; e != nil {
		return nil, e
	}
	return d.metas[a], nil
}
func (d *vfFakeDB) Delete(alias string) error { return nil }

// facts of the decision table of C11
type vfFacts struct {
	Strat        uint8
	CfgArgNil    bool // needsUpdate called with cfg == nil
	IssuerKnown  bool
	IssuerNewer  bool
	ConfigNewer  bool
	HasCert      bool
	HasKey       bool
	HasReq       bool
	CertExpired  bool // NotAfter before now
	UntilFuture  bool // cfg.Validity.Until after now
	UntilBetween bool // cfg.Validity.Until after the certificate's notAfter but not after now
	HashState    int  // 0 none stored, 1 equal, 2 different
	ArtFetchFail bool
}

// oracle: the statement of C11, rule by rule
func vfOracle(f vfFacts) bool {
	s := UpdateStrategy(f.Strat)
	if s&UpdateAll != 0 {
		return true
	}
	if s != 0 && f.IssuerKnown && f.IssuerNewer {
		return true
	}
	if s&UpdateNewerConfig != 0 && f.ConfigNewer {
		return true
	}
	if s&UpdateExpired != 0 && f.HasCert && f.CertExpired && f.UntilFuture {
		return true
	}
	if s&UpdateMissing != 0 && (!f.HasCert || (!f.HasKey && !f.HasReq)) {
		return true
	}
	if s&UpdateChanged != 0 && f.HashState == 2 {
		return true
	}
	return false
}

var vfKey, _ = ecdsa.GenerateKey(elliptic.P224(), rand.Reader)

func vfRun(f vfFacts) (got bool, panicked any) {
	d := newVfFakeDB()
	now := time.Now()
	base := now.Add(-24 * time.Hour)
	cfg := &config.CertificateContent{Alias: "sub", Issuer: "iss", SerialNumber: 7}
	cfg.Validity.Until = now.Add(-2 * time.Hour)
	if f.UntilBetween {
		cfg.Validity.Until = now.Add(-30 * time.Minute)
	}
	if f.UntilFuture {
		cfg.Validity.Until = now.Add(1000 * time.Hour)
	}
	d.cfgs["sub"] = cfg
	meta := &Metadata{LastBuild: base, LastConfigUpdate: base.Add(-time.Hour)}
	if f.ConfigNewer {
		meta.LastConfigUpdate = base.Add(time.Hour)
	}
	switch f.HashState {
	case 1:
		meta.LastConfigHash = cfg.HashSum()
	case 2:
		meta.LastConfigHash = []byte{1, 2, 3}
	}
	d.metas["sub"] = meta
	if f.IssuerKnown {
		d.cfgs["iss"] = &config.CertificateContent{Alias: "iss"}
		d.arts["iss"] = &BuildArtifact{}
	}
	im := &Metadata{LastBuild: base.Add(-time.Hour)}
	if f.IssuerNewer {
		im.LastBuild = base.Add(time.Hour)
	}
	d.metas["iss"] = im
	art := &BuildArtifact{}
	if f.HasCert {
		c := &cert.Certificate{}
		c.TBSCertificate.Validity.NotAfter = now.Add(1000 * time.Hour)
		if f.CertExpired {
			c.TBSCertificate.Validity.NotAfter = now.Add(-time.Hour)
		}
		art.Certificate = c
	}
	if f.HasKey {
		art.PrivateKey = vfKey
	}
	if f.HasReq {
		art.Request = &cert.CertificateRequest{}
	}
	d.arts["sub"] = art
	if f.ArtFetchFail {
		d.artErr["sub"] = errors.New("backend failure")
	}
	defer func() {
		if r := recover(); r != nil {
			panicked = r
		}
	}()
	var arg *config.CertificateContent
	if !f.CfgArgNil {
		arg = cfg
	}
	got = needsUpdate(d, UpdateStrategy(f.Strat), "sub", arg)
	return
}

func vfBool(m map[string]string, k string) bool { return m[k] == "true" }

// TestVerifReplayNeedsUpdate replays the solver's counterexample (the values of the watch clauses) on the real function.
func TestVerifReplayNeedsUpdate(t *testing.T) {
	b, err := os.ReadFile(os.Getenv("VERIF_REPLAY"))
	if err != nil {
		t.Skip("no replay file")
	}
	var rec struct {
		FailingVCs []struct {
			Model map[string]string `json:"model"`
		} `json:"failing_vcs"`
	}
	json.Unmarshal(b, &rec)
	if len(rec.FailingVCs) == 0 || rec.FailingVCs[0].Model == nil {
		fmt.Println("VERIF-REPLAY: not-reproduced no model in replay file")
		return
	}
	m := rec.FailingVCs[0].Model
	var f vfFacts
	fmt.Sscanf(m["strat"], "#x%x", &f.Strat)
	f.CfgArgNil = m["cfg"] == "0"
	f.IssuerKnown = vfBool(m, "dbCfg(S, CFG.Issuer) != 0")
	f.IssuerNewer = vfBool(m, "after(IMETA.LastBuild, META.LastBuild)")
	f.ConfigNewer = vfBool(m, "after(META.LastConfigUpdate, META.LastBuild)")
	f.HasCert = vfBool(m, "ART.Certificate != nil")
	f.HasKey = vfBool(m, "ART.PrivateKey != nil")
	f.HasReq = vfBool(m, "ART.Request != nil")
	f.CertExpired = vfBool(m, "after(nowAt(1), ART.Certificate.TBSCertificate.Validity.NotAfter)")
	f.UntilFuture = vfBool(m, "after(CFG.Validity.Until, nowAt(2))")
	f.ArtFetchFail = vfBool(m, "dbArtErr(S, alias) != #nilAny")
	if vfBool(m, "META.LastConfigHash != nil") {
		f.HashState = 1
		if vfBool(m, "bytes(META.LastConfigHash) != HASH") {
			f.HashState = 2
		}
	}
	got, p := vfRun(f)
	if p != nil {
		fmt.Printf("VERIF-REPLAY: confirmed needsUpdate panics (%v) for %+v\n", p, f)
		return
	}
	if f.ArtFetchFail {
		fmt.Printf("VERIF-REPLAY: not-reproduced artifact fetch failure is outside the decision table: %+v\n", f)
		return
	}
	if want := vfOracle(f); got != want {
		fmt.Printf("VERIF-REPLAY: confirmed needsUpdate=%v, decision table of C11 says %v for %+v\n", got, want, f)
		return
	}
	fmt.Printf("VERIF-REPLAY: not-reproduced needsUpdate=%v agrees with the decision table for %+v\n", got, f)
}

// TestVerifBoundedNeedsUpdate enumerates the whole decision table (bounded stand-in; complete for the listed facts).
func TestVerifBoundedNeedsUpdate(t *testing.T) {
	n := 0
	for s := 0; s < 32; s++ {
		for bits := 0; bits < 1<<9; bits++ {
			for hs := 0; hs < 3; hs++ {
				f := vfFacts{Strat: uint8(s), IssuerKnown: bits&1 != 0, IssuerNewer: bits&2 != 0, ConfigNewer: bits&4 != 0, HasCert: bits&8 != 0,
					HasKey: bits&16 != 0, HasReq: bits&32 != 0, CertExpired: bits&64 != 0, UntilFuture: bits&128 != 0, UntilBetween: bits&256 != 0, HashState: hs}
				got, p := vfRun(f)
				n++
				if p != nil {
					fmt.Printf("VERIF-BOUNDED: violation panic %v for %+v\n", p, f)
					return
				}
				if want := vfOracle(f); got != want {
					fmt.Printf("VERIF-BOUNDED: violation needsUpdate=%v, decision table says %v for %+v\n", got, want, f)
					return
				}
			}
		}
	}
	fmt.Printf("VERIF-BOUNDED: ok cases=%d\n", n)
}
