package filesystem

// Replay and bounded stand-in harness of /verif for package filesystem. Injected with `go test -overlay`; never written to /repo.

import (
	"bytes"
	"encoding/base64"
	"fmt"
	"io/fs"
	"strings"
	"testing"
	"testing/fstest"
)

func vfOpen(files map[string]string) (d *FsDb, err error, panicked any) {
	m := fstest.MapFS{".": &fstest.MapFile{Mode: 0777 | fs.ModeDir}}
	for n, c := range files {
		m[n] = &fstest.MapFile{Data: []byte(c), Mode: 0644}
	}
	defer func() {
		if r := recover(); r != nil {
			panicked = r
		}
	}()
	d = NewFilesystemDatabase(NewMapFs(m)).(*FsDb)
	err = d.Open()
	return
}

// TestVerifBoundedArtifactBytes: artifact files with the hash marker at every small offset, with and without newline,
// truncated base64, stray bytes: Open must never panic and must keep the config known.
func TestVerifBoundedArtifactBytes(t *testing.T) {
	cfg := "version: 1\nsubject: CN=root\n"
	n := 0
	prefixes := []string{"", "x", "xy", "\n", "garbage\n", "-----BEGIN X-----\n", "#HAS", "##"}
	bodies := []string{"#HASH:", "#HASH:\n", "#HASH:AQID\n", "#HASH:AQID", "#HASH:@@@\n", "#HASH:\n\n", "#HASH:AQIDBA==\n-----BEGIN CERTIFICATE-----\nAAAA\n-----END CERTIFICATE-----\n",
		"#HASH:HAS0\n", "#HASH:SGFzaA==\n", "#HASH:AAAA\n", "#HASH:HHHHAQID\n", "#HASH:#HASH:AQID\n", "#HASH: AQID\n", "#HASH:AQID \n", "#HASH:AQID\r\n"}
	suffixes := []string{"", "\n", "tail", "#HASH:zz\n"}
	for _, p := range prefixes {
		for _, b := range bodies {
			for _, s := range suffixes {
				content := p + b + s
				d, err, pan := vfOpen(map[string]string{"root.yaml": cfg, "root.pem": content})
				n++
				if pan != nil {
					fmt.Printf("VERIF-BOUNDED: violation Open panics (%v) for artifact content %q\n", pan, content)
					return
				}
				if err != nil || d.NumEntities() != 1 {
					fmt.Printf("VERIF-BOUNDED: violation Open fails (%v, %d entities) for artifact content %q\n", err, d.NumEntities(), content)
					return
				}
				// the stored hash as the file format defines it (C13/C10/C11): base64 text between the first "#HASH:" and
				// the end of that line; nothing when there is no such line or the text is not base64
				var want []byte
				if i := strings.Index(content, "#HASH:"); i >= 0 {
					if j := strings.IndexByte(content[i:], '\n'); j >= 0 {
						if b, err := base64.StdEncoding.DecodeString(content[i+6 : i+j]); err == nil {
							want = b
						}
					}
				}
				meta, merr := d.GetMetadata("root")
				if merr != nil || meta == nil {
					fmt.Printf("VERIF-BOUNDED: violation no metadata for root (%v) for artifact content %q\n", merr, content)
					return
				}
				if !bytes.Equal(meta.LastConfigHash, want) {
					fmt.Printf("VERIF-BOUNDED: violation stored hash read back as %x, the file says %x, for artifact content %q\n", meta.LastConfigHash, want, content)
					return
				}
			}
		}
	}
	// aliases, duplicates and the issuer graph (C18): small layouts with the expected outcome of Open
	cfgOf := func(alias, issuer string) string {
		s := "version: 1\nsubject: CN=x\n"
		if alias != "" {
			s += "alias: " + alias + "\n"
		}
		if issuer != "" {
			s += "issuer: " + issuer + "\n"
		}
		return s
	}
	layouts := []struct {
		files map[string]string
		ok    bool
		ents  int
		what  string
	}{
		{map[string]string{"a/root.yaml": cfgOf("", ""), "b/c/sub.yml": cfgOf("", "root"), "ee.json": "{\"version\":1,\"subject\":\"CN=e\",\"issuer\":\"sub\"}"}, true, 3, "forest with base-name aliases"},
		{map[string]string{"root.yaml": cfgOf("", ""), "sub.yaml": cfgOf("", "ghost")}, false, 0, "dangling issuer"},
		{map[string]string{"root.yaml": cfgOf("", ""), "loop.yaml": cfgOf("", "loop")}, false, 0, "self loop"},
		{map[string]string{"root.yaml": cfgOf("", ""), "x.yaml": cfgOf("", "y"), "y.yaml": cfgOf("", "x")}, false, 0, "cycle of two"},
		{map[string]string{"a/root.yaml": cfgOf("", ""), "b/root.yaml": cfgOf("", "")}, false, 0, "same base name in two directories"},
		{map[string]string{"pki/ca.yaml": cfgOf("", ""), "pki/ca.json": "{\"version\":1,\"subject\":\"CN=c\"}"}, false, 0, "same stem, two suffixes"},
		{map[string]string{"one.yaml": cfgOf("same", ""), "two.yaml": cfgOf("same", "")}, false, 0, "explicit alias twice"},
		{map[string]string{"root.YAML": cfgOf("", ""), "sub.Yml": cfgOf("", "ghost")}, false, 0, "dangling issuer in an upper-case suffix file"},
		{map[string]string{"root.yaml": cfgOf("", ""), "notes.txt": "issuer: ghost", "broken.yaml": ": : :", "noversion.yaml": "subject: CN=q\n"}, true, 1, "non-configuration files are skipped"},
	}
	for _, l := range layouts {
		n++
		d, err, pan := vfOpen(l.files)
		if pan != nil {
			fmt.Printf("VERIF-BOUNDED: violation Open panics (%v) for %s\n", pan, l.what)
			return
		}
		if l.ok != (err == nil) {
			fmt.Printf("VERIF-BOUNDED: violation %s: Open err=%v, expected success=%v\n", l.what, err, l.ok)
			return
		}
		if l.ok && d.NumEntities() != l.ents {
			fmt.Printf("VERIF-BOUNDED: violation %s: %d entities, expected %d\n", l.what, d.NumEntities(), l.ents)
			return
		}
	}
	if d, err, _ := vfOpen(layouts[0].files); err == nil {
		for alias, path := range map[string]string{"root": "a/root.pem", "sub": "b/c/sub.pem", "ee": "ee.pem"} {
			cfg, _ := d.GetConfig(alias)
			if cfg == nil || d.fsMetadata[alias] == nil || d.fsMetadata[alias].artifactFileName() != path {
				fmt.Printf("VERIF-BOUNDED: violation alias %q is not the base name of its file or its artifact is not %q\n", alias, path)
				return
			}
		}
	}
	fmt.Printf("VERIF-BOUNDED: ok cases=%d\n", n)
}

// TestVerifBoundedArtifactName: the artifact of a configuration file is the same path with its last suffix replaced by
// ".pem" (C10, C18), for names with several dots, dotted directories and all three suffixes in either case.
func TestVerifBoundedArtifactName(t *testing.T) {
	n := 0
	dirs := []string{"", "a/", "pki.d/", "x/y.z/", "./"}
	bases := []string{"root", "ca", "alma", "tls", "server.prod", "a.b.c", "yaml", "c"}
	exts := []string{".yaml", ".yml", ".json", ".YAML", ".Yml"}
	for _, d := range dirs {
		for _, b := range bases {
			for _, e := range exts {
				n++
				m := fsMetadata{configFileName: d + b + e}
				if got, want := m.artifactFileName(), d+b+".pem"; got != want {
					fmt.Printf("VERIF-BOUNDED: violation artifact of %q is %q, expected %q\n", m.configFileName, got, want)
					return
				}
			}
		}
	}
	fmt.Printf("VERIF-BOUNDED: ok cases=%d\n", n)
}
