package v1

// Replay and bounded stand-in harness of /verif for package config/v1. Injected with `go test -overlay`; never written to /repo.

import (
	"crypto/x509/pkix"
	"encoding/asn1"
	"encoding/base64"
	"encoding/json"
	"fmt"
	"os"
	"strings"
	"testing"
	"time"

	"github.com/wokdav/gopki/generator/cert"
	"github.com/wokdav/gopki/generator/config"
)

// documented names (certificate-example.yaml / certificate.json), independent of the tables under test
var vfKeyNames = map[string]cert.KeyAlgorithm{
	"RSA-1024": cert.RSA1024, "RSA-2048": cert.RSA2048, "RSA-4096": cert.RSA4096, "RSA-8192": cert.RSA8192,
	"P-224": cert.P224, "P-256": cert.P256, "P-384": cert.P384, "P-521": cert.P521,
	"brainpoolP256r1": cert.BrainpoolP256r1, "brainpoolP384r1": cert.BrainpoolP384r1, "brainpoolP512r1": cert.BrainpoolP512r1,
	"brainpoolP256t1": cert.BrainpoolP256t1, "brainpoolP384t1": cert.BrainpoolP384t1, "brainpoolP512t1": cert.BrainpoolP512t1,
}
var vfSigNames = map[string]cert.SignatureAlgorithm{
	"RSAwithSHA1": cert.RSAwithSHA1, "RSAwithSHA256": cert.RSAwithSHA256, "RSAwithSHA384": cert.RSAwithSHA384, "RSAwithSHA512": cert.RSAwithSHA512,
	"ECDSAwithSHA1": cert.ECDSAwithSHA1, "ECDSAwithSHA256": cert.ECDSAwithSHA256, "ECDSAwithSHA384": cert.ECDSAwithSHA384, "ECDSAwithSHA512": cert.ECDSAwithSHA512,
}

func vfModel(t *testing.T) map[string]string {
	b, err := os.ReadFile(os.Getenv("VERIF_REPLAY"))
	if err != nil {
		t.Skip("no replay file")
	}
	var rec struct {
		FailingVCs []struct {
			Model map[string]string `json:"model"`
		} `json:"failing_vcs"`
	}
	json.Unmarshal(b, &rec)
	if len(rec.FailingVCs) == 0 {
		return nil
	}
	return rec.FailingVCs[0].Model
}

func vfUnquote(s string) string { return strings.Trim(s, "\"") }

// TestVerifReplayTables: the witness names of the failed table lemma are looked up through a real configuration.
func TestVerifReplayTables(t *testing.T) {
	m := vfModel(t)
	for k, v := range m {
		if !strings.Contains(k, "witness") {
			continue
		}
		name := vfUnquote(v)
		if want, ok := vfKeyNames[name]; ok {
			c, err := initCertificate(CertConfig{Subject: "CN=x", KeyAlgorithm: name})
			if err != nil || c.KeyAlgorithm != want {
				fmt.Printf("VERIF-REPLAY: confirmed keyAlgorithm %q yields key algorithm %v (err %v), documented: %v\n", name, c.KeyAlgorithm, err, want)
				return
			}
		}
		if want, ok := vfSigNames[name]; ok {
			c, err := initCertificate(CertConfig{Subject: "CN=x", SignatureAlgorithm: name})
			if err != nil || c.SignatureAlgorithm != want {
				fmt.Printf("VERIF-REPLAY: confirmed signatureAlgorithm %q yields %v (err %v), documented: %v\n", name, c.SignatureAlgorithm, err, want)
				return
			}
		}
	}
	fmt.Println("VERIF-REPLAY: not-reproduced no witness name deviates from the documented tables")
}

// TestVerifBoundedTables: both name tables, entry by entry (finite, complete).
func TestVerifBoundedTables(t *testing.T) {
	n := 0
	for name, want := range vfKeyNames {
		n++
		if got, ok := keyAlgorithms[name]; !ok || got != want {
			fmt.Printf("VERIF-BOUNDED: violation keyAlgorithms[%q] = %v, documented %v\n", name, got, want)
			return
		}
	}
	for name, want := range vfSigNames {
		n++
		if got, ok := sigAlgorithms[name]; !ok || got != want {
			fmt.Printf("VERIF-BOUNDED: violation sigAlgorithms[%q] = %v, documented %v\n", name, got, want)
			return
		}
	}
	if len(keyAlgorithms) != len(vfKeyNames) || len(sigAlgorithms) != len(vfSigNames) {
		fmt.Printf("VERIF-BOUNDED: violation undocumented names in the tables\n")
		return
	}
	fmt.Printf("VERIF-BOUNDED: ok cases=%d\n", n)
}

// TestVerifBoundedValidity: every calendar date 1950-2200 as from/until, sampled durations, against civil-date arithmetic.
func TestVerifBoundedValidity(t *testing.T) {
	n := 0
	for y := 1950; y <= 2200; y += 1 {
		for mo := 1; mo <= 12; mo++ {
			for _, d := range []int{1, 2, 12, 13, 28} {
				s := fmt.Sprintf("%04d-%02d-%02d", y, mo, d)
				want := time.Date(y, time.Month(mo), d, 0, 0, 0, 0, time.Local)
				out, err := CertValidity{From: s, Until: "2201-01-01"}.toTimeStruct()
				n++
				if err != nil || !out.From.Equal(want) || !out.IsStatic || !out.IsSet {
					fmt.Printf("VERIF-BOUNDED: violation from %q parsed as %v (err %v), expected %v local midnight\n", s, out.From, err, want)
					return
				}
				out, err = CertValidity{From: "1949-01-01", Until: s}.toTimeStruct()
				n++
				if err != nil || !out.Until.Equal(want) {
					fmt.Printf("VERIF-BOUNDED: violation until %q parsed as %v (err %v), expected %v\n", s, out.Until, err, want)
					return
				}
			}
		}
	}
	for _, c := range []struct {
		dur     string
		y, m, d int
	}{{"1y", 1, 0, 0}, {"18m", 0, 18, 0}, {"45d", 0, 0, 45}, {"2y3m4d", 2, 3, 4}, {"10y6m", 10, 6, 0}, {"6m10d", 0, 6, 10}, {"1y10d", 1, 0, 10},
		{"010d", 0, 0, 10}, {"08m", 0, 8, 0}, {"02y012m030d", 2, 12, 30}, {"0100d", 0, 0, 100}, {"007d", 0, 0, 7}, {"09y", 9, 0, 0}} { // numbers are decimal, padded or not
		from := time.Date(2023, 11, 30, 0, 0, 0, 0, time.Local)
		out, err := CertValidity{From: "2023-11-30", Duration: c.dur}.toTimeStruct()
		n++
		if err != nil || !out.Until.Equal(from.AddDate(c.y, c.m, c.d)) {
			fmt.Printf("VERIF-BOUNDED: violation duration %q gives %v (err %v), expected %v\n", c.dur, out.Until, err, from.AddDate(c.y, c.m, c.d))
			return
		}
	}
	for _, dur := range []string{"99999999999999999999y", "9000y", "99999999m", "999999999999d"} {
		out, err := CertValidity{From: "2024-01-01", Duration: dur}.toTimeStruct()
		n++
		if err == nil && (out.Until.Before(out.From) || out.Until.Year() > 9999) {
			fmt.Printf("VERIF-BOUNDED: violation duration %q accepted with notAfter %v (before notBefore or beyond year 9999, which no certificate can carry)\n", dur, out.Until)
			return
		}
	}
	if out, err := (CertValidity{From: "2024-01-01", Until: "2025-01-01", Duration: "1y"}).toTimeStruct(); err == nil {
		fmt.Printf("VERIF-BOUNDED: violation until and duration both given accepted: %v\n", out)
		return
	}
	fmt.Printf("VERIF-BOUNDED: ok cases=%d\n", n)
}

// TestVerifBoundedRaw: !binary payloads of every length 0..1100 and a few large ones, !empty, !null, garbage.
func TestVerifBoundedRaw(t *testing.T) {
	n := 0
	lens := []int{}
	for i := 0; i <= 1100; i++ {
		lens = append(lens, i)
	}
	lens = append(lens, 2000, 4096, 65536)
	for _, l := range lens {
		payload := make([]byte, l)
		for i := range payload {
			payload[i] = byte(i*7 + l)
		}
		got, err := readRawString("!binary:" + vfB64(payload))
		n++
		if err != nil || string(got) != string(payload) {
			fmt.Printf("VERIF-BOUNDED: violation !binary payload of %d bytes read back as %d bytes (err %v)\n", l, len(got), err)
			return
		}
	}
	if b, err := readRawString("!empty"); err != nil || len(b) != 0 {
		fmt.Printf("VERIF-BOUNDED: violation !empty gives %v %v\n", b, err)
		return
	}
	if b, err := readRawString("!null"); err != nil || len(b) != 2 || b[0] != 5 || b[1] != 0 {
		fmt.Printf("VERIF-BOUNDED: violation !null gives %v %v\n", b, err)
		return
	}
	for _, bad := range []string{"", "x", "!binary", "!binary:@@", "!nil"} {
		if _, err := readRawString(bad); err == nil && bad != "!binary:" {
			fmt.Printf("VERIF-BOUNDED: violation %q accepted\n", bad)
			return
		}
	}
	fmt.Printf("VERIF-BOUNDED: ok cases=%d\n", n+7)
}

func vfB64(b []byte) string { return base64.StdEncoding.EncodeToString(b) }

// TestVerifFindingRelativeValidityHash shows the known finding of C13 on the real code: two configurations that differ
// only in their relative validity (duration 1y against 2y) have the same configuration hash although their
// certificates differ, so the edit is not detected by the "changed" strategy.
func TestVerifFindingRelativeValidityHash(t *testing.T) {
	conf := V1Configurator{}
	parse := func(d string) (*config.CertificateContent, error) {
		obj, err := conf.ParseConfiguration(`{"version":1,"subject":"CN=x","validity":{"duration":"` + d + `"}}`)
		if err != nil {
			return nil, err
		}
		c, ok := obj.(*config.CertificateContent)
		if !ok {
			return nil, fmt.Errorf("not a certificate configuration")
		}
		return c, nil
	}
	a, err1 := parse("1y")
	b, err2 := parse("2y")
	if err1 != nil || err2 != nil {
		fmt.Printf("VERIF-REPLAY: not-reproduced parse errors %v %v\n", err1, err2)
		return
	}
	pa, pb := a.Validity.Until.Sub(a.Validity.From), b.Validity.Until.Sub(b.Validity.From)
	if string(a.HashSum()) == string(b.HashSum()) && pa != pb {
		fmt.Printf("VERIF-REPLAY: confirmed duration 1y (%v) and duration 2y (%v) hash alike: %x\n", pa, pb, a.HashSum())
		return
	}
	fmt.Printf("VERIF-REPLAY: not-reproduced hashes %x %x periods %v %v\n", a.HashSum(), b.HashSum(), pa, pb)
}

// TestVerifBoundedParseExtensions is the bounded stand-in for parseExtensions (reflection with a non-constant bound):
// all 2^11 ways to set the pointer fields of one AnyExtension, and all lists of length 0..2 over the singletons and
// the empty element. Oracle from the statement of C06: exactly one kind per list element or an error; kinds and their
// contents come out in list order.
func TestVerifBoundedParseExtensions(t *testing.T) {
	mk := func(mask int) (AnyExtension, []config.ExtensionConfig) {
		var a AnyExtension
		var want []config.ExtensionConfig
		tag := fmt.Sprintf("%d", mask)
		if mask&1 != 0 {
			a.SubjectKeyIdentifier = &SubjectKeyIdentifier{Raw: tag}
			want = append(want, *a.SubjectKeyIdentifier)
		}
		if mask&2 != 0 {
			a.KeyUsage = &KeyUsage{Raw: tag}
			want = append(want, *a.KeyUsage)
		}
		if mask&4 != 0 {
			a.SubjectAltName = &SubjectAltName{Raw: tag}
			want = append(want, *a.SubjectAltName)
		}
		if mask&8 != 0 {
			a.BasicConstraints = &BasicConstraints{Raw: tag}
			want = append(want, *a.BasicConstraints)
		}
		if mask&16 != 0 {
			a.CertPolicies = &CertPolicies{Raw: tag}
			want = append(want, *a.CertPolicies)
		}
		if mask&32 != 0 {
			a.AuthInfoAccess = &AuthInfoAccess{Raw: tag}
			want = append(want, *a.AuthInfoAccess)
		}
		if mask&64 != 0 {
			a.AuthKeyId = &AuthKeyId{Raw: tag}
			want = append(want, *a.AuthKeyId)
		}
		if mask&128 != 0 {
			a.ExtKeyUsage = &ExtKeyUsage{Raw: tag}
			want = append(want, *a.ExtKeyUsage)
		}
		if mask&256 != 0 {
			a.AdmissionExtension = &AdmissionExtension{Raw: tag}
			want = append(want, *a.AdmissionExtension)
		}
		if mask&512 != 0 {
			a.OcspNoCheckExtension = &OcspNoCheckExtension{Raw: tag}
			want = append(want, *a.OcspNoCheckExtension)
		}
		if mask&1024 != 0 {
			a.CustomExtension = &CustomExtension{Raw: tag}
			want = append(want, *a.CustomExtension)
		}
		a.Optional, a.Override = mask&3 == 1, mask&5 == 4
		return a, want
	}
	same := func(got, want []config.ExtensionConfig) bool {
		if len(got) != len(want) {
			return false
		}
		for i := range got {
			if fmt.Sprintf("%T%+v", got[i], got[i]) != fmt.Sprintf("%T%+v", want[i], want[i]) {
				return false
			}
		}
		return true
	}
	n := 0
	check := func(list []AnyExtension, wants [][]config.ExtensionConfig) bool {
		n++
		var want []config.ExtensionConfig
		ok := true
		for _, w := range wants {
			if len(w) != 1 {
				ok = false
			}
			want = append(want, w...)
		}
		var got []config.ExtensionConfig
		var err error
		func() {
			defer func() {
				if r := recover(); r != nil {
					err = fmt.Errorf("panic: %v", r)
					ok = true // a panic is a violation whatever the oracle says
					got = nil
				}
			}()
			got, err = parseExtensions(list)
		}()
		if err != nil && strings.HasPrefix(err.Error(), "panic:") {
			fmt.Printf("VERIF-BOUNDED: violation parseExtensions panics (%v) for %+v\n", err, list)
			return false
		}
		if ok != (err == nil) {
			fmt.Printf("VERIF-BOUNDED: violation parseExtensions err=%v, one kind per element=%v for %d elements\n", err, ok, len(list))
			return false
		}
		if ok && !same(got, want) {
			fmt.Printf("VERIF-BOUNDED: violation parseExtensions returned %+v, configured %+v\n", got, want)
			return false
		}
		return true
	}
	for mask := 0; mask < 2048; mask++ {
		a, w := mk(mask)
		if !check([]AnyExtension{a}, [][]config.ExtensionConfig{w}) {
			return
		}
	}
	if !check(nil, nil) {
		return
	}
	singles := []int{0, 1, 2, 4, 8, 16, 32, 64, 128, 256, 512, 1024, 3, 1025}
	for _, m1 := range singles {
		for _, m2 := range singles {
			a1, w1 := mk(m1)
			a2, w2 := mk(m2)
			if !check([]AnyExtension{a1, a2}, [][]config.ExtensionConfig{w1, w2}) {
				return
			}
		}
	}
	fmt.Printf("VERIF-BOUNDED: ok cases=%d\n", n)
}

// TestVerifReplayEmptyQualifiers: a policy configured with an empty qualifier list (schema-valid) must encode as a
// PolicyInformation without policyQualifiers (RFC 5280: SEQUENCE SIZE (1..MAX) OPTIONAL), i.e. SEQUENCE { OID } only.
func TestVerifReplayEmptyQualifiers(t *testing.T) {
	c := CertPolicies{Content: []CertPolicy{{Oid: "1.2.3", Qualifiers: []PolicyQualifiers{}}}}
	b, err := c.Builder()
	if err != nil {
		fmt.Printf("VERIF-REPLAY: not-reproduced builder error %v\n", err)
		return
	}
	ext, err := b.Compile(nil)
	if err != nil {
		fmt.Printf("VERIF-REPLAY: not-reproduced compile error %v\n", err)
		return
	}
	want := []byte{0x30, 0x06, 0x30, 0x04, 0x06, 0x02, 0x2a, 0x03}
	if string(ext.Value) != string(want) {
		fmt.Printf("VERIF-REPLAY: confirmed qualifiers: [] encodes as % x, RFC 5280 wants % x (no empty policyQualifiers)\n", ext.Value, want)
		return
	}
	fmt.Printf("VERIF-REPLAY: not-reproduced value % x\n", ext.Value)
}

// TestVerifBoundedV1Names: the two places that turn a configured IPv4 text into four octets (subjectAlternativeName and
// admission authorities) read every octet as a decimal number 0..255, zero-padded or not, and reject everything else.
func TestVerifBoundedV1Names(t *testing.T) {
	n := 0
	octets := []string{"0", "1", "9", "10", "99", "127", "255", "010", "017", "008", "099", "000", "256", "300", "-1", "0x7f", "0b1", "1e1", "", " 1", "1 "}
	val := func(o string) (int, bool) {
		if o == "" || len(o) > 3 {
			return 0, false
		}
		v := 0
		for _, c := range o {
			if c < '0' || c > '9' {
				return 0, false
			}
			v = v*10 + int(c-'0')
		}
		return v, v <= 255
	}
	for _, a := range octets {
		for _, b := range []string{"0", "010", "255", "x"} {
			ip := "10." + a + "." + b + ".1"
			va, oka := val(a)
			vb, okb := val(b)
			ok := oka && okb
			want := []byte{10, byte(va), byte(vb), 1}
			// subjectAlternativeName
			n++
			bd, err := SubjectAltName{Content: []SubjAltNameComponent{{Type: "ip", Name: ip}}}.Builder()
			if ok != (err == nil) {
				fmt.Printf("VERIF-BOUNDED: violation subjectAlternativeName ip %q: err=%v, a dotted quad of decimal octets=%v\n", ip, err, ok)
				return
			}
			if ok {
				ext, err := bd.Compile(nil)
				if err != nil || len(ext.Value) != 8 || string(ext.Value[4:]) != string(want) || ext.Value[2] != 0x87 {
					fmt.Printf("VERIF-BOUNDED: violation subjectAlternativeName ip %q encoded as % x, configured octets %v\n", ip, ext.Value, want)
					return
				}
			}
			// admission authority
			n++
			gn, err := GeneralName{Type: "ip", Name: ip}.convert()
			if ok != (err == nil) {
				fmt.Printf("VERIF-BOUNDED: violation admission authority ip %q: err=%v, a dotted quad of decimal octets=%v\n", ip, err, ok)
				return
			}
			if ok {
				if g, isIP := gn.(cert.GeneralNameIP); !isIP || string(g[:]) != string(want) {
					fmt.Printf("VERIF-BOUNDED: violation admission authority ip %q converted to %v, configured octets %v\n", ip, gn, want)
					return
				}
			}
		}
	}
	// the other kinds and mixed lists: [1] mail, [2] dns, [7] ip in list order
	type comp struct {
		typ, name string
		tag       byte
		val       string
	}
	pool := []comp{{"mail", "a@b.c", 0x81, "a@b.c"}, {"dns", "x.example", 0x82, "x.example"}, {"ip", "1.2.3.4", 0x87, "\x01\x02\x03\x04"}, {"dns", "second.example.org", 0x82, "second.example.org"}}
	for _, a := range pool {
		for _, b := range pool {
			n++
			bd, err := SubjectAltName{Content: []SubjAltNameComponent{{Type: a.typ, Name: a.name}, {Type: b.typ, Name: b.name}}}.Builder()
			if err != nil {
				fmt.Printf("VERIF-BOUNDED: violation subjectAlternativeName [%s %s] fails: %v\n", a.typ, b.typ, err)
				return
			}
			ext, err := bd.Compile(nil)
			want := string([]byte{a.tag, byte(len(a.val))}) + a.val + string([]byte{b.tag, byte(len(b.val))}) + b.val
			if err != nil || len(ext.Value) < 2 || ext.Value[0] != 0x30 || int(ext.Value[1]) != len(want) || string(ext.Value[2:]) != want {
				fmt.Printf("VERIF-BOUNDED: violation subjectAlternativeName [%s:%s %s:%s] encoded as % x\n", a.typ, a.name, b.typ, b.name, ext.Value)
				return
			}
		}
	}
	if _, err := (SubjectAltName{Content: []SubjAltNameComponent{{Type: "bogus", Name: "x"}}}).Builder(); err == nil {
		fmt.Printf("VERIF-BOUNDED: violation subjectAlternativeName of unknown kind accepted\n")
		return
	}
	for _, ip := range []string{"1.2.3", "1.2.3.4.5", "", "1..2.3"} {
		n++
		if _, err := (SubjectAltName{Content: []SubjAltNameComponent{{Type: "ip", Name: ip}}}).Builder(); err == nil {
			fmt.Printf("VERIF-BOUNDED: violation subjectAlternativeName ip %q accepted\n", ip)
			return
		}
		if _, err := (GeneralName{Type: "ip", Name: ip}).convert(); err == nil {
			fmt.Printf("VERIF-BOUNDED: violation admission authority ip %q accepted\n", ip)
			return
		}
	}
	fmt.Printf("VERIF-BOUNDED: ok cases=%d\n", n)
}


// TestVerifBoundedManipulations: every subset of the six manipulation keys, with version 0, 1, 2 and 1234: Apply sets
// exactly the named fields of the configuration to exactly the given values and leaves the others nil.
func TestVerifBoundedManipulations(t *testing.T) {
	n := 0
	raw := "!binary:" + base64.StdEncoding.EncodeToString([]byte{0xde, 0xad, 0xbe, 0xef})
	for mask := 0; mask < 64; mask++ {
		for _, ver := range []int{0, 1, 2, 1234} {
			n++
			var m Manipulations
			v := ver
			if mask&1 != 0 {
				m.Version = &v
			}
			if mask&2 != 0 {
				m.OuterSigAlg = "1.2.3.4"
			}
			if mask&4 != 0 {
				m.SigValue = raw
			}
			if mask&8 != 0 {
				m.TbsSig = "1.2.840.1"
			}
			if mask&16 != 0 {
				m.TbsPubKeyAlg = "2.5.4.3"
			}
			if mask&32 != 0 {
				m.TbsPubKey = raw
			}
			var c config.CertificateContent
			if err := m.Apply(&c); err != nil {
				fmt.Printf("VERIF-BOUNDED: violation Apply(%+v) fails: %v\n", m, err)
				return
			}
			cm := c.Manipulations
			okAlg := func(p *pkix.AlgorithmIdentifier, set bool, oid string) bool {
				if !set {
					return p == nil
				}
				return p != nil && p.Algorithm.String() == oid && len(p.Parameters.FullBytes) == 0
			}
			okBits := func(p *asn1.BitString, set bool) bool {
				if !set {
					return p == nil
				}
				return p != nil && string(p.Bytes) == "\xde\xad\xbe\xef" && p.BitLength == 32
			}
			if (mask&1 != 0) != (cm.Version != nil) || (cm.Version != nil && *cm.Version != ver) ||
				!okAlg(cm.SignatureAlgorithm, mask&2 != 0, "1.2.3.4") || !okBits(cm.SignatureValue, mask&4 != 0) ||
				!okAlg(cm.TbsSignature, mask&8 != 0, "1.2.840.1") || !okAlg(cm.TbsPublicKeyAlgorithm, mask&16 != 0, "2.5.4.3") || !okBits(cm.TbsPublicKey, mask&32 != 0) {
				fmt.Printf("VERIF-BOUNDED: violation manipulations %+v (version %d) became %+v\n", m, ver, cm)
				return
			}
		}
	}
	fmt.Printf("VERIF-BOUNDED: ok cases=%d\n", n)
}

// TestVerifBoundedProfile: initProfile keeps the name, the subject attribute list, every extension in order and both
// flags of every extension, for all four flag combinations and attribute lists with every mix of optional entries.
func TestVerifBoundedProfile(t *testing.T) {
	n := 0
	for flags := 0; flags < 16; flags++ {
		for attrs := 0; attrs < 8; attrs++ {
			n++
			p := Profile{ProfileName: fmt.Sprintf("p%d", flags), Version: 1}
			for i := 0; i < 3; i++ {
				if attrs&(1<<i) != 0 || i == 0 {
					p.SubjectAttributes.Attributes = append(p.SubjectAttributes.Attributes, config.ProfileSubjectAttribute{Attribute: []string{"CN", "C", "O"}[i], Optional: attrs&(1<<i) != 0})
				}
			}
			p.SubjectAttributes.AllowOther = attrs&4 != 0
			p.Extensions = []AnyExtension{
				{KeyUsage: &KeyUsage{Raw: "!null"}, Optional: flags&1 != 0, Override: flags&2 != 0},
				{SubjectAltName: &SubjectAltName{}, Optional: flags&4 != 0, Override: flags&8 != 0},
			}
			out, err := initProfile(p)
			if err != nil || out == nil {
				fmt.Printf("VERIF-BOUNDED: violation initProfile fails: %v\n", err)
				return
			}
			if out.Name != p.ProfileName || len(out.SubjectAttributes.Attributes) != len(p.SubjectAttributes.Attributes) || out.SubjectAttributes.AllowOther != p.SubjectAttributes.AllowOther || len(out.Extensions) != 2 {
				fmt.Printf("VERIF-BOUNDED: violation profile %+v became %+v\n", p, out)
				return
			}
			for i, a := range p.SubjectAttributes.Attributes {
				if out.SubjectAttributes.Attributes[i] != a {
					fmt.Printf("VERIF-BOUNDED: violation subject attribute %d of %+v became %+v\n", i, p.SubjectAttributes, out.SubjectAttributes)
					return
				}
			}
			for i, e := range p.Extensions {
				if out.Extensions[i].Optional != e.Optional || out.Extensions[i].Override != e.Override {
					fmt.Printf("VERIF-BOUNDED: violation extension %d configured optional=%v override=%v, profile has optional=%v override=%v\n", i, e.Optional, e.Override, out.Extensions[i].Optional, out.Extensions[i].Override)
					return
				}
			}
			if _, ok := out.Extensions[0].ExtensionConfig.(KeyUsage); !ok {
				fmt.Printf("VERIF-BOUNDED: violation extension order: %T first\n", out.Extensions[0].ExtensionConfig)
				return
			}
		}
	}
	fmt.Printf("VERIF-BOUNDED: ok cases=%d\n", n)
}
