package config

// Replay and bounded stand-in harness of /verif for package config. Injected with `go test -overlay`; never written to /repo.

import (
	"crypto/x509/pkix"
	"encoding/asn1"
	"errors"
	"fmt"
	"reflect"
	"strings"
	"testing"
	"time"

	"github.com/wokdav/gopki/generator/cert"
)

var vfAlphabet = []string{"C", "O", "CN", "1.2.3"}

func vfOid(t *testing.T, name string) asn1.ObjectIdentifier {
	switch name {
	case "C":
		return asn1.ObjectIdentifier{2, 5, 4, 6}
	case "O":
		return asn1.ObjectIdentifier{2, 5, 4, 10}
	case "CN":
		return asn1.ObjectIdentifier{2, 5, 4, 3}
	case "OU":
		return asn1.ObjectIdentifier{2, 5, 4, 11}
	case "1.2.3":
		return asn1.ObjectIdentifier{1, 2, 3}
	}
	t.Fatalf("alphabet %q", name)
	return nil
}

// the statement of C09: subject attribute types in written order
func vfValidateOracle(attrs []ProfileSubjectAttribute, hasList bool, allowOther bool, subj []string) bool {
	if !hasList {
		return true
	}
	if !allowOther { // in-order subsequence of the profile's list (exists an increasing embedding)
		w := 0
		for _, s := range subj {
			for w < len(attrs) && attrs[w].Attribute != s {
				w++
			}
			if w >= len(attrs) {
				return false
			}
			w++
		}
	}
	for _, a := range attrs {
		if a.Optional {
			continue
		}
		found := false
		for _, s := range subj {
			if s == a.Attribute {
				found = true
			}
		}
		if !found {
			return false
		}
	}
	return true
}

func vfSubject(t *testing.T, names []string) pkix.RDNSequence {
	// stored reversed, like ParseRDNSequence does
	out := make(pkix.RDNSequence, len(names))
	for i, n := range names {
		out[len(names)-1-i] = pkix.RelativeDistinguishedNameSET{pkix.AttributeTypeAndValue{Type: vfOid(t, n), Value: "v" + fmt.Sprint(i)}}
	}
	return out
}

// TestVerifBoundedValidate: all profiles with up to 3 attributes over a 4-letter alphabet x optional flags x allowOther,
// all subjects up to length 4 over the alphabet plus one foreign attribute (OU). Also checks that the subject is left untouched.
func TestVerifBoundedValidate(t *testing.T) {
	n, nontrivial := 0, 0
	subjAlpha := append(append([]string{}, vfAlphabet...), "OU")
	var subjects [][]string
	var gen func(cur []string, left int)
	gen = func(cur []string, left int) {
		subjects = append(subjects, append([]string{}, cur...))
		if left == 0 {
			return
		}
		for _, a := range subjAlpha {
			gen(append(cur, a), left-1)
		}
	}
	gen(nil, 4)
	var profiles [][]ProfileSubjectAttribute
	var genP func(cur []ProfileSubjectAttribute, left int)
	genP = func(cur []ProfileSubjectAttribute, left int) {
		profiles = append(profiles, append([]ProfileSubjectAttribute{}, cur...))
		if left == 0 {
			return
		}
		for _, a := range vfAlphabet {
			for _, opt := range []bool{false, true} {
				genP(append(cur, ProfileSubjectAttribute{Attribute: a, Optional: opt}), left-1)
			}
		}
	}
	genP(nil, 3)
	for _, pa := range profiles {
		for _, allow := range []bool{false, true} {
			for _, hasList := range []bool{true, false} {
				if !hasList && len(pa) > 0 {
					continue
				}
				for _, sj := range subjects {
					prof := CertificateProfile{}
					prof.SubjectAttributes.AllowOther = allow
					if hasList {
						prof.SubjectAttributes.Attributes = append([]ProfileSubjectAttribute{}, pa...)
					}
					content := CertificateContent{Subject: vfSubject(t, sj)}
					before := vfSubject(t, sj)
					got := Validate(prof, content)
					n++
					want := vfValidateOracle(pa, hasList, allow, sj)
					if got != want {
						fmt.Printf("VERIF-BOUNDED: violation Validate=%v, statement of C09 says %v for profile %+v allowOther=%v subject %q\n", got, want, pa, allow, strings.Join(sj, ","))
						return
					}
					if !reflect.DeepEqual(content.Subject, before) {
						fmt.Printf("VERIF-BOUNDED: violation Validate changed the subject it was given: profile %+v allowOther=%v subject %q became %v\n", pa, allow, strings.Join(sj, ","), content.Subject)
						return
					}
					if len(pa) > 0 && len(sj) > 0 {
						nontrivial++
					}
				}
			}
		}
	}
	fmt.Printf("VERIF-BOUNDED: ok cases=%d nontrivial=%d\n", n, nontrivial)
}

// TestVerifBoundedRDN: subject strings of 1..4 pairs over all nine short names and custom OIDs, values with inner
// spaces, punctuation, '=' and non-ASCII text; the result must be the pairs in reversed order, one attribute per RDN,
// type from the documented table or the dotted OID, value text unchanged.
func TestVerifBoundedRDN(t *testing.T) {
	keys := map[string]asn1.ObjectIdentifier{"C": {2, 5, 4, 6}, "O": {2, 5, 4, 10}, "OU": {2, 5, 4, 11}, "CN": {2, 5, 4, 3}, "SERIALNUMBER": {2, 5, 4, 5},
		"L": {2, 5, 4, 7}, "ST": {2, 5, 4, 8}, "STREET": {2, 5, 4, 9}, "POSTALCODE": {2, 5, 4, 17}, "1.2.3.4": {1, 2, 3, 4}, "2.5.4.42": {2, 5, 4, 42}}
	var keyList []string
	for k := range keys {
		keyList = append(keyList, k)
	}
	values := []string{"x", "My Org", "a=b", "Müller & Söhne", "x.y-z_1/2", "with  two spaces", "=", "ünï"}
	n := 0
	check := func(pairs [][2]string, sep string) bool {
		var parts []string
		for _, p := range pairs {
			parts = append(parts, p[0]+"="+p[1])
		}
		s := strings.Join(parts, sep)
		res, err := ParseRDNSequence(s)
		n++
		if err != nil {
			fmt.Printf("VERIF-BOUNDED: violation subject %q rejected: %v\n", s, err)
			return false
		}
		if len(res) != len(pairs) {
			fmt.Printf("VERIF-BOUNDED: violation subject %q gives %d RDNs\n", s, len(res))
			return false
		}
		for k, p := range pairs {
			rdn := res[len(pairs)-1-k]
			if len(rdn) != 1 || !rdn[0].Type.Equal(keys[p[0]]) || rdn[0].Value != p[1] {
				fmt.Printf("VERIF-BOUNDED: violation subject %q: pair %d (%s=%s) became %v\n", s, k, p[0], p[1], rdn)
				return false
			}
		}
		return true
	}
	for _, k1 := range keyList {
		for _, v1 := range values {
			if !check([][2]string{{k1, v1}}, ",") {
				return
			}
			for _, k2 := range keyList {
				for _, v2 := range values[:4] {
					if !check([][2]string{{k1, v1}, {k2, v2}}, ", ") {
						return
					}
				}
			}
		}
	}
	for i := 0; i < 300; i++ { // longer subjects, deterministic pseudo-random choice
		var pairs [][2]string
		for j := 0; j < 3+i%6; j++ {
			pairs = append(pairs, [2]string{keyList[(i*7+j*3)%len(keyList)], values[(i+j*5)%len(values)]})
		}
		if !check(pairs, []string{",", ", ", " , "}[i%3]) {
			return
		}
	}
	fmt.Printf("VERIF-BOUNDED: ok cases=%d\n", n)
}

// ---- bounded stand-in for Merge (C08, C03, C04, C13). The oracle is written from the statement of C08, not from the
// code: a set of matched indices, a first-unmatched-with-same-OID search, and the three cases of the statement.

type vfExt struct {
	O int    `json:"o"`
	C string `json:"c"`
}

func (e vfExt) Oid() asn1.ObjectIdentifier              { return asn1.ObjectIdentifier{1, 2, 3, e.O} }
func (e vfExt) Builder() (cert.ExtensionBuilder, error) { return nil, errors.New("stand-in extension") }

type vfProfEntry struct {
	E                  vfExt
	Optional, Override bool
}

func vfMergeOracle(prof []vfProfEntry, certExts []vfExt) []vfExt {
	matched := map[int]bool{}
	placed := map[int]bool{}
	var out []vfExt
	for _, p := range prof {
		m := -1
		for i, c := range certExts {
			if !matched[i] && c.O == p.E.O {
				m = i
				break
			}
		}
		switch {
		case m >= 0 && p.Override:
			matched[m] = true
			placed[m] = true
			out = append(out, certExts[m])
		case m >= 0:
			matched[m] = true
			if certExts[m] != p.E {
				out = append(out, p.E)
			}
		case !p.Optional:
			out = append(out, p.E)
		}
	}
	for i, c := range certExts {
		if !placed[i] {
			out = append(out, c)
		}
	}
	return out
}

func vfLists[T any](alphabet []T, maxLen int) [][]T {
	res := [][]T{{}}
	level := [][]T{{}}
	for l := 1; l <= maxLen; l++ {
		var next [][]T
		for _, pre := range level {
			for _, a := range alphabet {
				n := append(append([]T{}, pre...), a)
				next = append(next, n)
			}
		}
		res = append(res, next...)
		level = next
	}
	return res
}

func TestVerifBoundedMerge(t *testing.T) {
	var entries []vfProfEntry
	var exts []vfExt
	for _, o := range []int{1, 2} {
		for _, c := range []string{"a", "b"} {
			exts = append(exts, vfExt{o, c})
			for _, opt := range []bool{false, true} {
				for _, ovr := range []bool{false, true} {
					entries = append(entries, vfProfEntry{vfExt{o, c}, opt, ovr})
				}
			}
		}
	}
	profLists := vfLists(entries, 3)
	certLists := vfLists(exts, 3)
	if testing.Short() {
		profLists = vfLists(entries, 2)
	}
	t0 := time.Date(2020, 1, 2, 3, 4, 5, 0, time.UTC)
	n := 0
	for _, pl := range profLists {
		prof := CertificateProfile{Name: "p"}
		for _, e := range pl {
			prof.Extensions = append(prof.Extensions, ProfileExtension{ExtensionConfig: e.E, ExtensionProfile: ExtensionProfile{Optional: e.Optional, Override: e.Override}})
		}
		profCopy := append([]ProfileExtension{}, prof.Extensions...)
		for _, cl := range certLists {
			content := CertificateContent{Alias: "a", Profile: "p", Issuer: "i", SerialNumber: 7,
				IssuerUniqueId: asn1.BitString{Bytes: []byte{0xA0}, BitLength: 3}, SubjectUniqueId: asn1.BitString{Bytes: []byte{0x55}, BitLength: 8},
				Subject: pkix.RDNSequence{{{Type: asn1.ObjectIdentifier{2, 5, 4, 3}, Value: "x"}}}, KeyAlgorithm: cert.P384, SignatureAlgorithm: cert.ECDSAwithSHA384}
			for _, e := range cl {
				content.Extensions = append(content.Extensions, e)
			}
			contentCopy := append([]ExtensionConfig{}, content.Extensions...)
			got, err := Merge(prof, content)
			n++
			if err != nil || got == nil {
				fmt.Printf("VERIF-BOUNDED: violation Merge(profile %+v, certificate extensions %+v) = %v, %v\n", pl, cl, got, err)
				return
			}
			want := vfMergeOracle(pl, cl)
			if len(got.Extensions) != len(want) {
				fmt.Printf("VERIF-BOUNDED: violation Merge(profile %+v, certificate extensions %+v): effective list %+v, the statement gives %+v\n", pl, cl, got.Extensions, want)
				return
			}
			for i := range want {
				if g, ok := got.Extensions[i].(vfExt); !ok || g != want[i] {
					fmt.Printf("VERIF-BOUNDED: violation Merge(profile %+v, certificate extensions %+v): effective list %+v, the statement gives %+v\n", pl, cl, got.Extensions, want)
					return
				}
			}
			if len(prof.Extensions) != len(profCopy) || len(content.Extensions) != len(contentCopy) || (len(profCopy) > 0 && !reflect.DeepEqual(prof.Extensions, profCopy)) || (len(contentCopy) > 0 && !reflect.DeepEqual(content.Extensions, contentCopy)) {
				fmt.Printf("VERIF-BOUNDED: violation Merge(profile %+v, certificate extensions %+v) changed its arguments\n", pl, cl)
				return
			}
			exp := content // every field except the extension list (and an inherited validity) is taken over unchanged
			exp.Extensions, exp.Validity = got.Extensions, got.Validity
			if !reflect.DeepEqual(*got, exp) {
				fmt.Printf("VERIF-BOUNDED: violation Merge changed a field it must take over: %+v from %+v\n", *got, content)
				return
			}
		}
	}
	// validity: inherited exactly when the certificate sets none and the profile sets one
	for _, cs := range []bool{false, true} {
		for _, ps := range []bool{false, true} {
			pv := CertificateValidity{From: t0, Until: t0.AddDate(1, 0, 0), IsSet: ps, IsStatic: true}
			cv := CertificateValidity{From: t0.AddDate(0, 1, 0), Until: t0.AddDate(0, 2, 0), IsSet: cs}
			got, err := Merge(CertificateProfile{Validity: pv}, CertificateContent{Validity: cv})
			want := cv
			if !cs && ps {
				want = pv
			}
			if err != nil || got.Validity != want {
				fmt.Printf("VERIF-BOUNDED: violation Merge validity: certificate set=%v profile set=%v gives %+v, expected %+v\n", cs, ps, got.Validity, want)
				return
			}
		}
	}
	fmt.Printf("VERIF-BOUNDED: ok cases=%d Merge against the statement of C08: profile lists up to length 3 over 16 entries (2 OIDs x 2 contents x optional x override) x certificate lists up to length 3 over 4 extensions, arguments unchanged, validity inheritance\n", n)
}
