package config

// Replay and bounded stand-in harness of /verif for package config. Injected with `go test -overlay`; never written to /repo.

import (
	"crypto/x509/pkix"
	"encoding/asn1"
	"fmt"
	"reflect"
	"strings"
	"testing"
)

var vfAlphabet = []string{"C", "O", "CN", "1.2.3"}

func vfOid(t *testing.T, name string) asn1.ObjectIdentifier {
	switch name {
	case "C":
		return asn1.ObjectIdentifier{2, 5, 4, 6}
	case "O":
		return asn1.ObjectIdentifier{2, 5, 4, 10}
	case "CN":
		return asn1.ObjectIdentifier{2, 5, 4, 3}
	case "OU":
		return asn1.ObjectIdentifier{2, 5, 4, 11}
	case "1.2.3":
		return asn1.ObjectIdentifier{1, 2, 3}
	}
	t.Fatalf("alphabet %q", name)
	return nil
}

// the statement of C09: subject attribute types in written order
func vfValidateOracle(attrs []ProfileSubjectAttribute, hasList bool, allowOther bool, subj []string) bool {
	if !hasList {
		return true
	}
	if !allowOther { // in-order subsequence of the profile's list (exists an increasing embedding)
		w := 0
		for _, s := range subj {
			for w < len(attrs) && attrs[w].Attribute != s {
				w++
			}
			if w >= len(attrs) {
				return false
			}
			w++
		}
	}
	for _, a := range attrs {
		if a.Optional {
			continue
		}
		found := false
		for _, s := range subj {
			if s == a.Attribute {
				found = true
			}
		}
		if !found {
			return false
		}
	}
	return true
}

func vfSubject(t *testing.T, names []string) pkix.RDNSequence {
	// stored reversed, like ParseRDNSequence does
	out := make(pkix.RDNSequence, len(names))
	for i, n := range names {
		out[len(names)-1-i] = pkix.RelativeDistinguishedNameSET{pkix.AttributeTypeAndValue{Type: vfOid(t, n), Value: "v" + fmt.Sprint(i)}}
	}
	return out
}

// TestVerifBoundedValidate: all profiles with up to 3 attributes over a 4-letter alphabet x optional flags x allowOther,
// all subjects up to length 4 over the alphabet plus one foreign attribute (OU). Also checks that the subject is left untouched.
func TestVerifBoundedValidate(t *testing.T) {
	n, nontrivial := 0, 0
	subjAlpha := append(append([]string{}, vfAlphabet...), "OU")
	var subjects [][]string
	var gen func(cur []string, left int)
	gen = func(cur []string, left int) {
		subjects = append(subjects, append([]string{}, cur...))
		if left == 0 {
			return
		}
		for _, a := range subjAlpha {
			gen(append(cur, a), left-1)
		}
	}
	gen(nil, 4)
	var profiles [][]ProfileSubjectAttribute
	var genP func(cur []ProfileSubjectAttribute, left int)
	genP = func(cur []ProfileSubjectAttribute, left int) {
		profiles = append(profiles, append([]ProfileSubjectAttribute{}, cur...))
		if left == 0 {
			return
		}
		for _, a := range vfAlphabet {
			for _, opt := range []bool{false, true} {
				genP(append(cur, ProfileSubjectAttribute{Attribute: a, Optional: opt}), left-1)
			}
		}
	}
	genP(nil, 3)
	for _, pa := range profiles {
		for _, allow := range []bool{false, true} {
			for _, hasList := range []bool{true, false} {
				if !hasList && len(pa) > 0 {
					continue
				}
				for _, sj := range subjects {
					prof := CertificateProfile{}
					prof.SubjectAttributes.AllowOther = allow
					if hasList {
						prof.SubjectAttributes.Attributes = append([]ProfileSubjectAttribute{}, pa...)
					}
					content := CertificateContent{Subject: vfSubject(t, sj)}
					before := vfSubject(t, sj)
					got := Validate(prof, content)
					n++
					want := vfValidateOracle(pa, hasList, allow, sj)
					if got != want {
						fmt.Printf("VERIF-BOUNDED: violation Validate=%v, statement of C09 says %v for profile %+v allowOther=%v subject %q\n", got, want, pa, allow, strings.Join(sj, ","))
						return
					}
					if !reflect.DeepEqual(content.Subject, before) {
						fmt.Printf("VERIF-BOUNDED: violation Validate changed the subject it was given: profile %+v allowOther=%v subject %q became %v\n", pa, allow, strings.Join(sj, ","), content.Subject)
						return
					}
					if len(pa) > 0 && len(sj) > 0 {
						nontrivial++
					}
				}
			}
		}
	}
	fmt.Printf("VERIF-BOUNDED: ok cases=%d nontrivial=%d\n", n, nontrivial)
}

// TestVerifBoundedRDN: subject strings of 1..4 pairs over all nine short names and custom OIDs, values with inner
// spaces, punctuation, '=' and non-ASCII text; the result must be the pairs in reversed order, one attribute per RDN,
// type from the documented table or the dotted OID, value text unchanged.
func TestVerifBoundedRDN(t *testing.T) {
	keys := map[string]asn1.ObjectIdentifier{"C": {2, 5, 4, 6}, "O": {2, 5, 4, 10}, "OU": {2, 5, 4, 11}, "CN": {2, 5, 4, 3}, "SERIALNUMBER": {2, 5, 4, 5},
		"L": {2, 5, 4, 7}, "ST": {2, 5, 4, 8}, "STREET": {2, 5, 4, 9}, "POSTALCODE": {2, 5, 4, 17}, "1.2.3.4": {1, 2, 3, 4}, "2.5.4.42": {2, 5, 4, 42}}
	var keyList []string
	for k := range keys {
		keyList = append(keyList, k)
	}
	values := []string{"x", "My Org", "a=b", "Müller & Söhne", "x.y-z_1/2", "with  two spaces", "=", "ünï"}
	n := 0
	check := func(pairs [][2]string, sep string) bool {
		var parts []string
		for _, p := range pairs {
			parts = append(parts, p[0]+"="+p[1])
		}
		s := strings.Join(parts, sep)
		res, err := ParseRDNSequence(s)
		n++
		if err != nil {
			fmt.Printf("VERIF-BOUNDED: violation subject %q rejected: %v\n", s, err)
			return false
		}
		if len(res) != len(pairs) {
			fmt.Printf("VERIF-BOUNDED: violation subject %q gives %d RDNs\n", s, len(res))
			return false
		}
		for k, p := range pairs {
			rdn := res[len(pairs)-1-k]
			if len(rdn) != 1 || !rdn[0].Type.Equal(keys[p[0]]) || rdn[0].Value != p[1] {
				fmt.Printf("VERIF-BOUNDED: violation subject %q: pair %d (%s=%s) became %v\n", s, k, p[0], p[1], rdn)
				return false
			}
		}
		return true
	}
	for _, k1 := range keyList {
		for _, v1 := range values {
			if !check([][2]string{{k1, v1}}, ",") {
				return
			}
			for _, k2 := range keyList {
				for _, v2 := range values[:4] {
					if !check([][2]string{{k1, v1}, {k2, v2}}, ", ") {
						return
					}
				}
			}
		}
	}
	for i := 0; i < 300; i++ { // longer subjects, deterministic pseudo-random choice
		var pairs [][2]string
		for j := 0; j < 3+i%6; j++ {
			pairs = append(pairs, [2]string{keyList[(i*7+j*3)%len(keyList)], values[(i+j*5)%len(values)]})
		}
		if !check(pairs, []string{",", ", ", " , "}[i%3]) {
			return
		}
	}
	fmt.Printf("VERIF-BOUNDED: ok cases=%d\n", n)
}
