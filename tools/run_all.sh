#!/bin/bash
# usage: tools/run_all.sh [tier] [props...]  -- runs the checks of all (or the given) properties and prints their summary lines
export GOFLAGS=-mod=mod GOPROXY=off GOSUMDB=off GOTOOLCHAIN=local
tier=${1:-quick}; shift
props=${@:-C01 C02 C03 C04 C05 C06 C07 C08 C09 C10 C11 C13 C14 C16 C17 C18 C19 C20}
cd /verif
for p in $props; do
  ./bin/verif check --property $p --tier $tier 2>&1 | grep -E "^(VIOLATION|UNDECIDED|TOOL-ERROR|KNOWN-FINDING|property=)" | cut -c1-220 | awk '/^TOOL-ERROR/{t++; if (t>4) next} /^VIOLATION/{v++; if (v>8) next} {print}' 
done
