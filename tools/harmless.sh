#!/bin/bash
# usage: tools/harmless.sh [ID...]  -- must-pass corpus: every behaviour-preserving edit under /verif/harmless/<ID>.diff is applied to
# /repo in turn (never committed, always restored); the quick checks of the properties with a unit on an edited function
# must stay silent. Prints QUIET/ALARM per edit.
cd /verif
ids=${@:-$(ls harmless | grep '\.diff$' | sed 's/\.diff$//')}
rc=0
for id in $ids; do
  out=$(tools/try_harmless.sh /verif/harmless/$id.diff 2>&1)
  v=$(echo "$out" | tail -1)
  echo "$v $id: $(echo "$out" | grep -m1 '^functions:') | $(echo "$out" | grep -m1 '^properties:') | $(echo "$out" | grep -E '^(VIOLATION|UNDECIDED)' | cut -c1-150 | sort -u | head -3 | tr '\n' ';')"
  [ "$v" = QUIET ] || rc=1
done
exit $rc
