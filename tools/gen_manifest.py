#!/usr/bin/env python3
"""Generates /verif/MANIFEST.json from the table below (kept as a script so the manifest is always schema-shaped)."""
import json, subprocess, os

TECH = 'contract-based deductive verification: VC generation (symbolic execution with loop invariants, frames, callee contracts) over go/ssa of /repo, discharged by z3 5.1/z3 4.8/cvc5'
def C(text, note, ref):
    return (text, note, TECH, ref)
COMMON = " Go ints mathematical, termination not verified, logging dropped; assumed library contracts and unverified /repo callees are listed in the evidence of every run."
CLAIMED = {
 "C01": C("Sign is proved to return exactly the TBS it signed, signed with the hash/OID/key type of one spec table (RFC 3279/4055/5758), issuer DN taken from the issuer context; GenerateArtifacts is proved to fill that context from the issuer's current artifact (key, subject-public-key bits, SUBJECT of its certificate); PlanBulkUpdate is proved equal to a breadth-first recursion; for all inputs.",
           "Assumed: sign/verify axiom of crypto/ecdsa and crypto/rsa, hash.Hash model, asn1.Marshal deterministic in the deep value, db.Database interface contract, ExtensionBuilder.Compile deterministic." + COMMON, "6 (C01)"),
 "C02": C("Proved on gopki's side: version 2, serial below 2^159, inner and outer AlgorithmIdentifier equal including parameters, NULL parameters for RSA and none for ECDSA, BitLength of the signature value; table lemmas for the signature OIDs.",
           "DER of primitives is encoding/asn1 (assumed); field order and tag options of the reflection-encoded structs are pinned by shape obligations taken from the ASN.1 modules." + COMMON, "6 (C02)"),
 "C04": C("toTimeStruct is proved against the calendar spec (from/until as civil dates at local midnight through an assumed time.ParseInLocation contract that REQUIRES the layout 2006-01-02, duration components added with AddDate, five-year default, both-given rejected, year range), Merge's inheritance rule and the UTC conversion in NewCertificateContext/BuildCertBody; for all inputs.",
           "Assumed: time.ParseInLocation/AddDate/UTC, regexp groups of the duration pattern, strconv.Atoi; UTCTime/GeneralizedTime choice is encoding/asn1." + COMMON, "6 (C04)"),
 "C05": C("Table lemmas proved on the executed package initializers: every documented key/signature algorithm name maps to the algorithm of that name, signature OIDs, key types, curves and curve OIDs per algorithm; GeneratePrivateKey is proved to ask for exactly the modulus length (1024/2048/4096/8192) or the curve the algorithm names, SetPrivateKey to fill the SubjectPublicKeyInfo with rsaEncryption+NULL+PKCS#1 key or id-ecPublicKey+named-curve OID+uncompressed point of that very key; BuildCertBody's generate/reuse/CSR choice and Sign's algorithm identifier are proved.",
           "Assumed: rsa.GenerateKey/ecdsa.GenerateKey return a key of the requested size/curve, x509.MarshalPKCS1PublicKey and elliptic point encoding as spec functions; interior pointers passed to callees by copy-in/copy-out (callee does not retain them)." + COMMON, "6 (C05)"),
 "C08": C("config.Merge is proved equal to the statement's recursion (specs/merge.smt2) for all profile and certificate extension lists of any length, with loop invariants and a frame obligation (no effect on its inputs); validateAndMerge is proved to return that merge for the named profile.",
           "Assumed: encoding/json.Marshal deterministic in the deep value, ExtensionConfig.Oid interface contract, ObjectIdentifier.Equal/bytes.Equal are content equality." + COMMON, "6 (C08)"),
 "C09": C("config.Validate is proved equal to the statement (in-order selection unless allowOther, every non-optional attribute present, no list accepts all) for all profiles and subjects of any length, and to leave the subject untouched; validateAndMerge/PlanBulkUpdate are proved to turn a rejection into an error before anything is planned.",
           "FsDb stores and finds a profile under exactly its own name (walk callback, AddProfile, GetProfile proved), so the profile a certificate names is the one it is validated against; greedy selection = existence of an embedding is the textbook lemma." + COMMON, "6 (C09)"),
 "C11": C("needsUpdate is proved equal to the decision formula of the statement for every strategy byte and every combination of backend facts at once (symbolic), PlanBulkUpdate equal to the planning recursion (issuer planned or needsUpdate; Replace iff a certificate exists; breadth-first order).",
           "The facts needsUpdate consults come from importPem/ReadPem, proved to keep what the blocks of an artifact file held also when text follows the last block. Assumed: db.Database interface contract over an abstract backend state, clock readings, needsUpdate named as a function of its arguments at the planning level (abstraction clause)." + COMMON, "6 (C11)"),
 "C13": C("HashSum is proved to be SHA-1 over the JSON of the configuration with alias, profile name and run-relative times blanked (spec blankV); lemmas over blankV prove insensitivity to exactly those and sensitivity to every other field and to static validity.",
           "Assumed: json.Marshal deterministic/injective per shape, SHA-1 collision-free." + COMMON, "6 (C13)"),
 "C14": C("BuildCertBody is proved to reuse a stored key (regardless of the configured algorithm), else use the request's public key without inventing a private key, else generate; GenerateArtifacts is proved to pass the stored key/request in and to return them in the new artifact; the PEM writers are proved to emit exactly one block of the right type with the PKCS#8 of that key (MarshalPKCS8PrivateKey/parseECPrivateKey/ParsePKCS8PrivateKey proved field by field, see C17).",
           "ReadPem is proved against the block-scan recursion of specs/pem.smt2 (pem.Decode and asn1.Unmarshal assumed); induction over runs is a paper step." + COMMON, "6 (C14)"),
 "C19": C("BuildCertBody, Sign and SignCertBody are proved with strongest postconditions per field: each TBS manipulation sets exactly its field before signing, the outer ones replace exactly the outer algorithm/value after signing and leave the signed part untouched.",
           "OID text to arcs and raw decoding are proved in OidFromString/readRawString." + COMMON, "6 (C19)"),
 "C03": C("ParseRDNSequence is proved to turn the comma-separated pieces into single-valued RDNs in reversed order with the type from the documented short-name table (table lemma on the executed initializer) or the dotted OID (OidFromString proved arc by arc) and the value text after the first '=' unchanged; Validate/Merge/validateAndMerge are proved to leave the subject untouched (frame); serial and unique ids are proved to pass through initCertificate, BuildCertBody and Sign.",
           "The comma splitting over runes (loop 1 of ParseRDNSequence) is abstracted and covered by a bounded stand-in (labelled bounded); PrintableString/UTF8String choice is encoding/asn1." + COMMON, "6 (C03)"),
 "C06": C("Every Builder of the eleven extension kinds is proved (commonExtensionHandler inlined, its reflection evaluated for the concrete type): neither raw nor content gives OverrideNeededBuilder, both is an error, raw gives a ConstantBuilder with the kind's OID, the configured critical flag and exactly the decoded raw bytes (readRawString proved for every length); BuildCertBody and Sign are proved to keep builder order; every constructor is proved to carry its critical argument and OID.",
           "parseExtensions is proved (its reflection loop over the fields of AnyExtension executed field by field for the statically known type): exactly one extension per list entry or an error, same length and order, the k-th result holds a copy of the structure the k-th entry points to; its bounded stand-in still runs in thorough. ConstantBuilder.Compile (returns an interior pointer, outside the subset) and FunctionBuilder.Compile (calls a function value) are not verified; base64 decoding is assumed." + COMMON, "6 (C06)"),
 "C07": C("Value contracts over a TLV algebra: key usage as minimal named bit list for all 256 flag bytes (bit vectors), the four GeneralName encodings, subjectAltName/authorityInfoAccess as SEQUENCE of the element encodings (loop invariants), key identifiers as SHA-1 of the subject/issuer public key bits, basic constraints, policies, extended key usage as DER of the struct the builders are proved to fill from the configuration.",
           "DER of primitives and reflection-driven struct encoding is encoding/asn1 (assumed); policy qualifiers are proved element by element (nested loop invariants)." + COMMON, "6 (C07)"),
 "C10": C("Write frame proved: exportPemFile writes at most the artifact file of its alias with exactly hash line, certificate, key and request blocks; PutBuildArtifact and BulkUpdate write only artifact files of listed aliases and return the first error; the sign closure is proved to reach BulkUpdate only after successful Open and planning and, when something would be replaced, only if the trimmed lower-cased answer is y; needsUpdate/HashSum lemmas as in C11/C13.",
           "Partial: the two-run quiescence argument composes these per-call facts on paper; OS mtime semantics and the clock are assumptions; db.Database interface contract." + COMMON, "6 (C10)"),
 "C16": C("Admission.marshal, Admissions.marshal, ProfessionInfo.marshal (partialMarshallStruct inlined, its reflection and struct tags evaluated) and makeExplicit are proved to compose the CommonPKI AdmissionSyntax TLV by TLV with the tag strings of the specification; the v1 convert functions are proved to carry every configured field and GeneralName kind.",
           "Field encoders inside encoding/asn1 are assumed." + COMMON, "6 (C16)"),
 "C17": C("marshalECPrivateKeyWithOID is proved to emit RFC 5915 ECPrivateKey version 1 with the scalar as exactly ceil(bitlen(n)/8) big-endian octets (leading zeros kept), the curve OID and the uncompressed point; MarshalPKCS8PrivateKey to wrap it (or the PKCS#1 key with NULL parameters) under the right algorithm identifier and the named-curve OID of a table proved on the executed initializers; parseECPrivateKey/ParsePKCS8PrivateKey/namedCurveFromOID are proved to read those fields back (scalar value, zero padding accepted, range check against the curve order, curve by OID for all ten curves) and to reject anything else with an error.",
           "The round trip is composed by the verifier itself: verifRoundTripEC/verifRoundTripRSA (verif-tagged, never called) are proved to return the same curve, scalar and point (EC) resp. the same PKCS#1 key (RSA) for every valid key, from the two contracts and the stated axiom that asn1.Unmarshal undoes asn1.Marshal on the two key containers (specs/rt.smt2); ReadPem's block scan is proved against specs/pem.smt2 with pem.Decode assumed; struct declarations are pinned by shape obligations; big.Int and elliptic-curve arithmetic are spec functions." + COMMON, "6 (C17)"),
 "C18": C("IsConsistent is proved to compare NumEntities with the size of the breadth-first closure of the root list under GetSubscribers (loop invariant against the recursive spec bfs), so dangling issuers, cycles and self-loops (never reached from a root) make it false; importCertConfigFile is proved to derive the alias (explicit or base name without suffix), to refuse a second configuration of the same alias, and to file the entity under roots or under its issuer's subscribers; the sign closure is proved to reach BulkUpdate only after Open succeeded; write frame as in C10.",
           "The walk callback (suffix filter, only parsed certificate configurations imported, unparseable files skipped), ParseConfig and the version-1 parser V1Configurator.ParseConfiguration (a certificate or profile pointer or an error; every error of the schema validator, yaml and the init functions returned) are under contract; fs.WalkDir itself, yaml and the JSON schema validator are assumed; that bfs-count equality characterises forests is the textbook lemma." + COMMON, "6 (C18)"),
 "C20": C("Safety sweep: every index, slice, nil dereference, type assertion, lossy conversion and explicit panic in all functions under contract is an obligation discharged for all inputs satisfying the stated preconditions; preconditions are obligations at in-repo call sites.",
           "The run also proves every clause without a property tag (index ranges, lengths, nil-ness in invariants, preconditions and postconditions) of every unit, since the safety proofs rest on them; clauses tagged for another property are assumed here and proved in that property's run. Parsers in dependencies (yaml, jsonschema, asn1, pem) are outside; functions marked unverified are listed in evidence." + COMMON, "6 (C20)"),
}
NOT_APPLICABLE = {
 "C12": "whole-history convergence needs an inductive invariant over directory states under a user-operation alphabet; no per-call contract states it (DESIGN.md section 6, C12)",
 "C15": "process death / torn writes are not behaviours of any function; no pre/postcondition ranges over crash points (DESIGN.md section 6, C15)",
}
PENDING = "contracts for this property are not yet discharged in this revision of /verif; not claimed until they are"

def main():
    ids = [json.loads(l)["id"] for l in open("/verif/properties.jsonl")]
    hooks = subprocess.run(["git", "-C", "/repo", "log", "--format=%H %s"], capture_output=True, text=True).stdout.splitlines()
    hook_commits = [l.split()[0] for l in hooks if l.split(" ", 1)[1].startswith("verif:")]
    checks = []
    for i in ids:
        if i not in CLAIMED:
            continue
        text, note, tech, ref = CLAIMED[i]
        checks.append({
            "property_id": i,
            "quick_cmd": f"./bin/verif check --property {i} --tier quick",
            "thorough_cmd": f"./bin/verif check --property {i} --tier thorough",
            "evidence_file": f"/verif/evidence/{i}.json",
            "replay_cmd_template": "./bin/verif replay {path}",
            "engine": "govc",
            "level_claimed": {"category": "proof", "text": text, "design_ref": ref},
            "level_note": note,
            "technique": tech,
        })
    na = []
    for i in ids:
        if i in CLAIMED:
            continue
        na.append({"property_id": i, "reason": NOT_APPLICABLE.get(i, PENDING)})
    m = {
        "version": 1,
        "setup_cmd": "cd /verif/engine && GOFLAGS=-mod=vendor GOPROXY=off GOSUMDB=off GOTOOLCHAIN=local go build -o /verif/bin/verif .",
        "hooks": {
            "guard": "verif",
            "enable": "go build -tags verif (the guarded files contracts_verif.go contain comments only: the //@ contract lines read by /verif/bin/verif; generator/cert/roundtrip_verif.go holds two functions that are never called and exist so that the verifier composes the PKCS#8 write and read contracts)",
            "baseline_off_cmd": "cd /repo && GOFLAGS=-mod=mod GOPROXY=off GOSUMDB=off go test -json -vet=off -count=1 -timeout 25m ./...",
            "source_commits": hook_commits,
            "add_only": True,
        },
        "engines": [{"name": "govc", "path": "/verif/engine", "serves_properties": sorted(CLAIMED), "kind_free_text": "verification-condition generator over go/ssa of /repo (contracts as //@ comments in contracts_verif.go files, assumed library contracts in /verif/trusted, spec functions in /verif/specs), obligations discharged by z3 5.1.0 / z3 4.8.12 / cvc5 1.0.3"}],
        "checks": checks,
        "not_applicable": na,
        "notes": "See DESIGN.md. Exit codes of the check commands: 0 held, 1 violation (VIOLATION lines), 2 tool failure.",
    }
    json.dump(m, open("/verif/MANIFEST.json", "w"), indent=1)
    print("claimed", sorted(CLAIMED), "n/a", len(na))

main()
