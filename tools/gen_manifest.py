#!/usr/bin/env python3
"""Generates /verif/MANIFEST.json from the table below (kept as a script so the manifest is always schema-shaped)."""
import json, subprocess, os

CLAIMED = {
 # id: (level text, level_note, technique, design_ref)
 "C08": ("config.Merge is proved equal to the statement's recursion (spec/merge.smt2) for all profile and certificate extension lists of any length, with loop invariants and a frame obligation (no effect on its inputs); every obligation generated from /repo's current SSA must be unsat.",
         "Assumed: encoding/json.Marshal deterministic in the deep value, ExtensionConfig.Oid interface contract, ObjectIdentifier.Equal/bytes.Equal are content equality; Go ints mathematical; termination not verified.",
         "contract-based deductive verification: WP/symbolic execution over go/ssa with loop invariants, VCs discharged by z3/cvc5", "6 (C08)"),
}
NOT_APPLICABLE = {
 "C12": "whole-history convergence needs an inductive invariant over directory states under a user-operation alphabet; no per-call contract states it (DESIGN.md section 6, C12)",
 "C15": "process death / torn writes are not behaviours of any function; no pre/postcondition ranges over crash points (DESIGN.md section 6, C15)",
}
PENDING = "contracts for this property are not yet discharged in this revision of /verif; not claimed until they are"

def main():
    ids = [json.loads(l)["id"] for l in open("/verif/properties.jsonl")]
    hooks = subprocess.run(["git", "-C", "/repo", "log", "--format=%H %s"], capture_output=True, text=True).stdout.splitlines()
    hook_commits = [l.split()[0] for l in hooks if l.split(" ", 1)[1].startswith("verif:")]
    checks = []
    for i in ids:
        if i not in CLAIMED:
            continue
        text, note, tech, ref = CLAIMED[i]
        checks.append({
            "property_id": i,
            "quick_cmd": f"./bin/verif check --property {i} --tier quick",
            "thorough_cmd": f"./bin/verif check --property {i} --tier thorough",
            "evidence_file": f"/verif/evidence/{i}.json",
            "replay_cmd_template": "./bin/verif replay {path}",
            "engine": "govc",
            "level_claimed": {"category": "proof", "text": text, "design_ref": ref},
            "level_note": note,
            "technique": tech,
        })
    na = []
    for i in ids:
        if i in CLAIMED:
            continue
        na.append({"property_id": i, "reason": NOT_APPLICABLE.get(i, PENDING)})
    m = {
        "version": 1,
        "setup_cmd": "cd /verif/engine && GOFLAGS=-mod=vendor GOPROXY=off GOSUMDB=off GOTOOLCHAIN=local go build -o /verif/bin/verif .",
        "hooks": {
            "guard": "verif",
            "enable": "go build -tags verif (the guarded files contracts_verif.go contain comments only: the //@ contract lines read by /verif/bin/verif)",
            "baseline_off_cmd": "cd /repo && GOFLAGS=-mod=mod GOPROXY=off GOSUMDB=off go test -json -vet=off -count=1 -timeout 25m ./...",
            "source_commits": hook_commits,
            "add_only": True,
        },
        "engines": [{"name": "govc", "path": "/verif/engine", "serves_properties": sorted(CLAIMED), "kind_free_text": "verification-condition generator over go/ssa of /repo (contracts as //@ comments in contracts_verif.go files, assumed library contracts in /verif/trusted, spec functions in /verif/specs), obligations discharged by z3 5.1.0 / z3 4.8.12 / cvc5 1.0.3"}],
        "checks": checks,
        "not_applicable": na,
        "notes": "See DESIGN.md. Exit codes of the check commands: 0 held, 1 violation (VIOLATION lines), 2 tool failure.",
    }
    json.dump(m, open("/verif/MANIFEST.json", "w"), indent=1)
    print("claimed", sorted(CLAIMED), "n/a", len(na))

main()
