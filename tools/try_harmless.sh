#!/bin/bash
# usage: tools/try_harmless.sh <patch (absolute path)>  -- must-pass corpus: applies a behaviour-preserving edit to /repo
# (never committed, always restored), runs the quick checks of every property that has a unit on a function the edit
# touches, and prints ALARM if any of them reports a VIOLATION, QUIET otherwise.
patch=$1
export GOFLAGS=-mod=mod GOPROXY=off GOSUMDB=off GOTOOLCHAIN=local
cd /repo || exit 2
if [ -n "$(git status --porcelain)" ]; then echo "repo not clean"; exit 2; fi
git apply "$patch" || { echo "patch does not apply"; exit 2; }
trap 'git -C /repo checkout -- . ' EXIT
cd /verif
props=$(python3 - "$patch" <<'PY'
import re,sys,subprocess
patch=open(sys.argv[1]).read()
funcs=set(); cur=None
for l in patch.splitlines():
    m=re.match(r'\+\+\+ b/(.*)',l)
    if m: cur=m.group(1); lines=open('/repo/'+cur).read().splitlines(); continue
    m=re.match(r'@@ -\d+(?:,\d+)? \+(\d+)(?:,(\d+))? @@',l)
    if m and cur:
        a=int(m.group(1)); n=int(m.group(2) or 1)
        for i in range(a+2,a+max(n-2,1)+1):            # skip the context lines roughly
            j=min(i,len(lines))-1
            while j>=0 and not lines[j].startswith('func '): j-=1
            if j>=0:
                mm=re.match(r'func (?:\([^)]*\) )?(\w+)',lines[j])
                if mm: funcs.add(mm.group(1))
out=subprocess.run(['./bin/verif','list'],capture_output=True,text=True).stdout
props=set()
for l in out.splitlines():
    m=re.match(r'(\S+)\s+\[([^\]]*)\]',l)
    if not m: continue
    name=re.split(r'[.)]',m.group(1))[-1].split('$')[0].split('#')[0]
    if name in funcs: props|=set(m.group(2).split())
print(' '.join(sorted(props)) or 'C20', file=sys.stdout)
print('functions:',' '.join(sorted(funcs)), file=sys.stderr)
PY
)
echo "properties: $props"
alarm=0
for p in $props; do
  out=$(./bin/verif check --property $p --tier quick 2>&1 | grep -E "^(VIOLATION|UNDECIDED|TOOL-ERROR|property=)" | cut -c1-200)
  echo "$out" | grep -E "^(VIOLATION|TOOL-ERROR|property=)" | head -4
  echo "$out" | grep -E "^UNDECIDED" | awk '{print $1, $2, $3}' | sort -u | head -4
  echo "$out" | grep -q "^VIOLATION" && alarm=1
done
[ $alarm = 1 ] && echo "ALARM" || echo "QUIET"
