#!/bin/bash
# usage: tools/selftest.sh [ID...]  -- must-fail corpus: every seeded change under /verif/seeded/<ID>/ is applied to /repo in
# turn (never committed, always restored) and the quick check of its property must report a VIOLATION. Run after every
# engine or contract change.
cd /verif
ids=${@:-$(ls seeded)}
rc=0
for id in $ids; do
  prop=${id%%-*}
  out=$(tools/try_mutant.sh /verif/seeded/$id/patch.diff $prop 2>&1)
  if echo "$out" | grep -q "^VIOLATION property=$prop"; then
    echo "DETECTED $id: $(echo "$out" | grep -m1 "^VIOLATION" | cut -c1-160)"
  else
    echo "MISSED   $id: $(echo "$out" | grep -m1 "^property=" | cut -c1-160)"; rc=1
  fi
done
exit $rc
