#!/usr/bin/env python3
"""One-shot helper used during the build: appends prepared contract blocks to /repo's contract comment files.
Kept for the record; running it twice is refused."""
import sys

def append(path, marker, text):
    s = open(path).read()
    if marker in s:
        print("already present in", path)
        return
    open(path, "w").write(s.rstrip("\n") + "\n" + text)
    print("appended to", path)

# ---- config: the builder that must be overridden fails at compile time (C08, C06)
append("/repo/generator/config/contracts_verif.go", "func (OverrideNeededBuilder).Compile", '''
// OverrideNeededBuilder never yields an extension: a profile extension without content that no certificate extension
// replaces makes signing fail (C08). The box fact restates this contract through the interface's naming function.
//@ func (OverrideNeededBuilder).Compile returns (p, err)
//@   props C08 C06
//@   ensures @C08,C06 err != nil && p == nil
//@ boxfact OverrideNeededBuilder forall x int :: compileErr(box, x) != #nilAny

// FunctionBuilder without a function is an error, not a nil dereference.
//@ func (FunctionBuilder).Compile returns (p, err)
//@   props C06 C20
//@   unverified calls a function value
//@   abstracts f.Function == nil ==> err != nil && p == nil
''')

# ---- v1: profiles (C08, C09, C04)
append("/repo/generator/config/v1/contracts_verif.go", "func initProfile", '''
// initProfile (C08, C09, C04): name, subject attribute list and validity are taken over as parsed; every extension keeps
// its position and its optional/override flags.
//@ func initProfile returns (res, err)
//@   props C08 C09 C04 C20
//@   ghostret EXT (View Any) = seq(extTmp)
//@   ghostret VAL gopki/generator/config.CertificateValidity = callres("(gopki/generator/config/v1.CertValidity).toTimeStruct", 1, 0)
//@   ensures err != nil ==> res == nil
//@   ensures @C08,C09,C04 err == nil ==> res != nil && fresh(res) && res.Name == p.ProfileName && res.SubjectAttributes == p.SubjectAttributes
//@   ensures @C04 err == nil ==> bound(VAL) && res.Validity == VAL
//@   ensures @C08 err == nil ==> bound(EXT) && len(res.Extensions) == vlen(EXT) && len(res.Extensions) == len(p.Extensions)
//@   ensures @C08 err == nil && bound(EXT) ==> (forall k in [0, len(res.Extensions)) :: res.Extensions[k].ExtensionConfig == EXT[k] && res.Extensions[k].ExtensionProfile.Override == p.Extensions[k].Override && res.Extensions[k].ExtensionProfile.Optional == p.Extensions[k].Optional)
//@   loop 1
//@     invariant 0 <= idx && idx <= len(extTmp) && len(out.Extensions) == len(extTmp) && fresh(out.Extensions) && len(extTmp) == len(p.Extensions)
//@     invariant @C08 forall k in [0, idx) :: out.Extensions[k].ExtensionConfig == extTmp[k] && out.Extensions[k].ExtensionProfile.Override == p.Extensions[k].Override && out.Extensions[k].ExtensionProfile.Optional == p.Extensions[k].Optional
''')

# ---- filesystem: the native file system writes below its base directory only (C10)
append("/repo/generator/db/filesystem/contracts_verif.go", "func (nativefs).WriteFile", '''
// nativefs.WriteFile (C10): an absolute name is refused without touching the disk; otherwise exactly one file is
// written, the one at base directory + separator + name, with exactly the given content.
//@ func (nativefs).WriteFile returns (err)
//@   props C10 C20
//@   atcall @C10 os.WriteFile !callres("path/filepath.IsAbs", 1, 0) && name == concat(concat(n.basepath, "/"), #p_name) && data == content
//@   ensures @C10 callres("path/filepath.IsAbs", 1, 0) ==> err != nil && !called("os.WriteFile", 1)
//@   ensures @C10 !callres("path/filepath.IsAbs", 1, 0) ==> called("os.WriteFile", 1) && !called("os.WriteFile", 2) && err == callres("os.WriteFile", 1, 0)

// NewFilesystemDatabase establishes the data-structure invariant MAPS every method requires.
//@ func NewFilesystemDatabase returns (res)
//@   props C18 C20
//@   let F = typed(unboxRef(res), "*gopki/generator/db/filesystem.FsDb")
//@   ensures @C18,C20 typeis(res, "*gopki/generator/db/filesystem.FsDb") && F != nil && fresh(F) && F.configs != nil && F.artifacts != nil && F.fsMetadata != nil && F.profiles != nil && F.subscribersOf != nil
//@   ensures @C18,C20 F.configs != F.artifacts && F.configs != F.fsMetadata && F.artifacts != F.fsMetadata && F.profiles != F.configs && F.profiles != F.artifacts && F.profiles != F.fsMetadata && F.subscribersOf != F.configs && F.subscribersOf != F.artifacts && F.subscribersOf != F.fsMetadata && F.subscribersOf != F.profiles
//@   ensures @C18 len(F.rootAliases) == 0 && maplen(F.configs) == 0 && maplen(F.subscribersOf) == 0
''')

# ---- v1: parseExtensions yields one configuration per list element (assumed; bounded stand-in checks it)
p = "/repo/generator/config/v1/contracts_verif.go"
s = open(p).read()
old = "//@   bounded TestVerifBoundedParseExtensions\n"
new = old + "//@   abstracts err == nil ==> len(res) == len(e)\n//@   abstracts err != nil ==> res == nil\n"
if "abstracts err == nil ==> len(res) == len(e)" not in s:
    assert old in s
    open(p, "w").write(s.replace(old, new, 1))
    print("parseExtensions abstracts added")
