import sys
def parse(s):
    # returns list of top-level sexprs as nested lists/atoms
    out=[];st=[out];i=0;n=len(s)
    while i<n:
        c=s[i]
        if c=='(':
            l=[];st[-1].append(l);st.append(l);i+=1
        elif c==')':
            st.pop();i+=1
        elif c.isspace(): i+=1
        elif c=='"':
            j=i+1
            while True:
                j=s.index('"',j)
                if j+1<n and s[j+1]=='"': j+=2; continue
                break
            st[-1].append(s[i:j+1]);i=j+1
        elif c=='|':
            j=s.index('|',i+1);st[-1].append(s[i:j+1]);i=j+1
        else:
            j=i
            while j<n and not s[j].isspace() and s[j] not in '()': j+=1
            st[-1].append(s[i:j]);i=j
    return out
def show(x):
    if isinstance(x,list): return '('+' '.join(show(y) for y in x)+')'
    return x
def flat_and(x):
    if isinstance(x,list) and x and x[0]=='and':
        r=[]
        for y in x[1:]: r+=flat_and(y)
        return r
    return [x]
