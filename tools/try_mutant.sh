#!/bin/bash
# usage: tools/try_mutant.sh <patch> <property> [more properties...]
# applies a seeded change to /repo, runs the quick checks, and always restores /repo afterwards
patch=$1; shift
cd /repo || exit 2
if [ -n "$(git status --porcelain)" ]; then echo "repo not clean"; exit 2; fi
git apply "$patch" || { echo "patch does not apply"; exit 2; }
# the evidence files are records of runs on the unchanged tree: keep them aside while a seeded change is checked
bak=$(mktemp -d /tmp/evbak.XXXXXX); cp /verif/evidence/*.json $bak/ 2>/dev/null
trap 'git -C /repo checkout -- . ; cp $bak/*.json /verif/evidence/ 2>/dev/null; rm -rf $bak' EXIT
cd /verif
for p in "$@"; do
  ./bin/verif check --property $p --tier quick 2>&1 | grep -E "^(VIOLATION|UNDECIDED|TOOL-ERROR|property=)" | cut -c1-260 | head -12
  echo "exit=$?"
done
