#!/usr/bin/env python3
# usage: splitgoal.py <vc.smt2> [timeout]  -- debugging aid: checks every conjunct of a VC's goal separately
import sys,subprocess,os
sys.path.insert(0,os.path.dirname(__file__))
from sx import *
f=sys.argv[1]; T=sys.argv[2] if len(sys.argv)>2 else '10'
s=open(f).read()
i=s.rindex('(assert (not ')
head,goal=s[:i],s[i:].replace('(check-sat)','')
g=parse(goal)[0][1][1]
def leaves(x,ctx):
    # yields (wrapper-function, leaf)
    if isinstance(x,list) and x:
        if x[0]=='forall':
            yield from leaves(x[2],ctx+[('forall',x[1])]); return
        if x[0]=='!' :
            yield from leaves(x[1],ctx); return
        if x[0]=='=>' and len(x)==3:
            yield from leaves(x[2],ctx+[('=>',x[1])]); return
        if x[0]=='and':
            for y in x[1:]: yield from leaves(y,ctx)
            return
    yield ctx,x
def wrap(ctx,leaf):
    t=show(leaf)
    for kind,a in reversed(ctx):
        t='(forall %s %s)'%(show(a),t) if kind=='forall' else '(=> %s %s)'%(show(a),t)
    return t
k=0
for ctx,leaf in leaves(g,[]):
    t=head+'(assert (not %s))\n(check-sat)\n'%wrap(ctx,leaf)
    tmp='/tmp/splitgoal_%d.smt2'%os.getpid()
    open(tmp,'w').write(t)
    r=subprocess.run(['z3-new','-T:'+T,tmp],capture_output=True,text=True).stdout.split('\n')[0]
    print(k,r,show(leaf)[:160]); k+=1
os.remove(tmp)
