#!/bin/bash
# usage: tools/seed_round.sh <ID>...   -- confirms each seeded change in /tmp/wt/<ID> (in parallel), then runs the quick
# check of its property against it (one after the other, /repo is shared), then removes the scratch worktree
for id in "$@"; do
  ( p=${id%%-*}
    pkg=$(python3 -c "import json;print(json.load(open('/tmp/wt/$id/_mutation/meta.json')).get('demo_package','').strip('./'))")
    /verif/tools/confirm_seed.sh $id $pkg "Test${p}Demo" > /tmp/wt/$id.confirm 2>&1 ) &
done
wait
for id in "$@"; do
  p=${id%%-*}
  echo "=== $id"; cat /tmp/wt/$id.confirm
  /verif/tools/try_mutant.sh /verif/seeded/$id/patch.diff $p 2>&1 | tail -6
  git -C /repo worktree remove --force /tmp/wt/$id
done
