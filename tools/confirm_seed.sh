#!/bin/bash
# usage: tools/confirm_seed.sh <ID> <package dir relative to repo root> <test regexp>
# Confirms a seeded change in the scratch worktree /tmp/wt/<ID>: builds, passes the whole suite, the demonstration fails
# with the change and passes without it. Then stores it under /verif/seeded/<ID>/.
set -u
id=$1; pkg=$2; rx=$3
wt=/tmp/wt/$id
export GOFLAGS=-mod=mod GOPROXY=off GOSUMDB=off GOTOOLCHAIN=local
cd $wt || exit 2
git checkout -q -- . ; git apply _mutation/patch.diff || { echo "patch does not apply"; exit 2; }
go build ./... || { echo "BUILD FAILS"; exit 1; }
suite=$(go test -vet=off -count=1 ./... 2>&1 | grep -v "no test files" | grep -vc "^ok")
echo "suite: non-ok lines=$suite"
cp _mutation/demo_test.go $pkg/zz_seed_demo_test.go
with=$(go test -vet=off -count=1 -run "$rx" ./$pkg 2>&1 | tail -1)
git apply -R _mutation/patch.diff
without=$(go test -vet=off -count=1 -run "$rx" ./$pkg 2>&1 | tail -1)
rm -f $pkg/zz_seed_demo_test.go
git apply _mutation/patch.diff
echo "with change:    $with"
echo "without change: $without"
mkdir -p /verif/seeded/$id
cp _mutation/patch.diff _mutation/demo_test.go /verif/seeded/$id/
python3 - "$id" "$pkg" "$rx" "$suite" "$with" "$without" <<'PY'
import json,sys
id,pkg,rx,suite,w,wo=sys.argv[1:]
m=json.load(open('/tmp/wt/%s/_mutation/meta.json'%id))
m['confirmed']={"build":"ok","existing_suite_non_ok_lines":int(suite),"demo_with_change":w,"demo_without_change":wo,
  "demo_location":pkg,"demo_run":"go test -vet=off -count=1 -run '%s' ./%s"%(rx,pkg)}
json.dump(m,open('/verif/seeded/%s/meta.json'%id,'w'),indent=1)
PY
